package main

// FLOW: backward value provenance inside a function.

import (
	"go/token"

	"golang.org/x/tools/go/ssa"
)

// origins returns the leaves of the backward closure of v through value-preserving operations:
// phi, conversions, interface boxing, slicing, tuple extraction, type assertion, the builtin
// append (both the slice and the appended elements, including the varargs backing array),
// loads from function-local cells (all values stored into the cell), and element-of for
// index/lookup/range (tagged by the container).
// Leaves are parameters, free variables, globals, constants, calls, field loads from non-local
// memory, allocations.
func origins(v ssa.Value) []ssa.Value {
	seen := map[ssa.Value]bool{}
	var leaves []ssa.Value
	var rec func(v ssa.Value)
	rec = func(v ssa.Value) {
		if v == nil || seen[v] {
			return
		}
		seen[v] = true
		switch x := v.(type) {
		case *ssa.Phi:
			for _, e := range x.Edges {
				rec(e)
			}
		case *ssa.ChangeType:
			rec(x.X)
		case *ssa.Convert:
			rec(x.X)
		case *ssa.MakeInterface:
			rec(x.X)
		case *ssa.ChangeInterface:
			rec(x.X)
		case *ssa.Slice:
			rec(x.X)
		case *ssa.TypeAssert:
			rec(x.X)
		case *ssa.Extract:
			leaves = append(leaves, v)
		case *ssa.Call:
			if b, ok := x.Call.Value.(*ssa.Builtin); ok && b.Name() == "append" {
				for _, a := range x.Call.Args {
					rec(a)
				}
				return
			}
			leaves = append(leaves, v)
		case *ssa.UnOp:
			if x.Op == token.MUL {
				if a, ok := x.X.(*ssa.Alloc); ok {
					// local variable cell: all stored values
					n := 0
					for _, r := range refs(a) {
						if st, ok := r.(*ssa.Store); ok && st.Addr == a {
							rec(st.Val)
							n++
						}
					}
					if n == 0 {
						leaves = append(leaves, v)
					}
					return
				}
				if ia, ok := x.X.(*ssa.IndexAddr); ok {
					// element of an array/slice: if the base is a local array alloc (varargs
					// backing store), the stored elements; otherwise element-of leaf.
					if a, ok := ia.X.(*ssa.Alloc); ok {
						for _, r := range refs(a) {
							if ia2, ok := r.(*ssa.IndexAddr); ok {
								for _, r2 := range refs(ia2) {
									if st, ok := r2.(*ssa.Store); ok && st.Addr == ia2 {
										rec(st.Val)
									}
								}
							}
						}
						return
					}
				}
				leaves = append(leaves, v)
				return
			}
			leaves = append(leaves, v)
		case *ssa.Alloc:
			// a slice of a local array (varargs): the elements stored into it
			stored := false
			for _, r := range refs(x) {
				if ia, ok := r.(*ssa.IndexAddr); ok {
					for _, r2 := range refs(ia) {
						if st, ok := r2.(*ssa.Store); ok && st.Addr == ia {
							rec(st.Val)
							stored = true
						}
					}
				}
			}
			if !stored {
				leaves = append(leaves, v)
			}
		default:
			leaves = append(leaves, v)
		}
	}
	rec(v)
	return leaves
}

// derivesOnlyFrom reports whether every origin of v satisfies ok (constants are accepted when
// allowConst).
func derivesOnlyFrom(v ssa.Value, ok func(ssa.Value) bool) bool {
	ls := origins(v)
	if len(ls) == 0 {
		return false
	}
	for _, l := range ls {
		if !ok(l) {
			return false
		}
	}
	return true
}

// anyOrigin reports whether some origin of v satisfies ok.
func anyOrigin(v ssa.Value, ok func(ssa.Value) bool) bool {
	for _, l := range origins(v) {
		if ok(l) {
			return true
		}
	}
	return false
}

// storesTo lists the stores in fn whose address is a field path ending with the given field
// names (e.g. "Status","ActiveReplicaSet").
func storesTo(fn *ssa.Function, suffix ...string) []*ssa.Store {
	var out []*ssa.Store
	for _, b := range fn.Blocks {
		for _, in := range b.Instrs {
			if st, ok := in.(*ssa.Store); ok {
				if _, isFA := st.Addr.(*ssa.FieldAddr); isFA && hasPathSuffix(st.Addr, suffix...) {
					out = append(out, st)
				}
			}
		}
	}
	return out
}

// varargElems returns the values stored into the variadic slice passed as argument v
// (a Slice of a local array alloc, possibly through phi/append), and whether the slice is fully
// understood (false if some component is opaque).
func varargElems(v ssa.Value) ([]ssa.Value, bool) {
	var elems []ssa.Value
	complete := true
	seen := map[ssa.Value]bool{}
	var rec func(v ssa.Value)
	rec = func(v ssa.Value) {
		if v == nil || seen[v] {
			return
		}
		seen[v] = true
		switch x := v.(type) {
		case *ssa.Const:
			// nil slice: no elements
		case *ssa.Slice:
			rec(x.X)
		case *ssa.Alloc:
			found := false
			for _, r := range refs(x) {
				switch y := r.(type) {
				case *ssa.IndexAddr:
					for _, r2 := range refs(y) {
						if st, ok := r2.(*ssa.Store); ok && st.Addr == y {
							elems = append(elems, st.Val)
							found = true
						}
					}
				case *ssa.Store:
					if y.Addr == x { // variable cell holding a slice
						rec(y.Val)
						found = true
					}
				}
			}
			_ = found
		case *ssa.Phi:
			for _, e := range x.Edges {
				rec(e)
			}
		case *ssa.UnOp:
			if x.Op == token.MUL {
				if a, ok := x.X.(*ssa.Alloc); ok {
					rec(a)
					return
				}
			}
			complete = false
		case *ssa.Call:
			if b, ok := x.Call.Value.(*ssa.Builtin); ok && b.Name() == "append" {
				rec(x.Call.Args[0])
				if len(x.Call.Args) > 1 {
					rec(x.Call.Args[1])
				}
				return
			}
			complete = false
		case *ssa.MakeSlice:
			// empty literal with capacity: elements come via IndexAddr stores (none tracked)
		default:
			complete = false
		}
	}
	rec(v)
	return elems, complete
}

// sliceAlternatives returns, for a slice-typed value built from literals, appends and phis, the
// alternative element lists it can hold (one per combination of phi edges). ok=false when some
// component is opaque (a parameter, a field load, an unknown call).
func sliceAlternatives(v ssa.Value) (alts [][]ssa.Value, ok bool) {
	ok = true
	depth := 0
	var rec func(v ssa.Value, seen map[ssa.Value]bool) [][]ssa.Value
	rec = func(v ssa.Value, seen map[ssa.Value]bool) [][]ssa.Value {
		depth++
		defer func() { depth-- }()
		if depth > 40 || seen[v] {
			ok = false
			return nil
		}
		seen[v] = true
		defer delete(seen, v)
		switch x := v.(type) {
		case *ssa.Const:
			return [][]ssa.Value{{}}
		case *ssa.Slice:
			return rec(x.X, seen)
		case *ssa.MakeSlice:
			return [][]ssa.Value{{}}
		case *ssa.Alloc:
			var elems []ssa.Value
			isCell := false
			var cellAlts [][]ssa.Value
			for _, r := range refs(x) {
				switch y := r.(type) {
				case *ssa.IndexAddr:
					for _, r2 := range refs(y) {
						if st, isSt := r2.(*ssa.Store); isSt && st.Addr == y {
							elems = append(elems, st.Val)
						}
					}
				case *ssa.Store:
					if y.Addr == x {
						isCell = true
						cellAlts = append(cellAlts, rec(y.Val, seen)...)
					}
				}
			}
			if isCell {
				return cellAlts
			}
			return [][]ssa.Value{elems}
		case *ssa.Phi:
			var out [][]ssa.Value
			for _, e := range x.Edges {
				out = append(out, rec(e, seen)...)
			}
			return out
		case *ssa.UnOp:
			if x.Op == token.MUL {
				if a, isA := x.X.(*ssa.Alloc); isA {
					return rec(a, seen)
				}
			}
		case *ssa.Call:
			if b, isB := x.Call.Value.(*ssa.Builtin); isB && b.Name() == "append" {
				as := rec(x.Call.Args[0], seen)
				bs := [][]ssa.Value{{}}
				if len(x.Call.Args) > 1 {
					bs = rec(x.Call.Args[1], seen)
				}
				var out [][]ssa.Value
				for _, a := range as {
					for _, b := range bs {
						out = append(out, append(append([]ssa.Value{}, a...), b...))
					}
				}
				return out
			}
		}
		ok = false
		return nil
	}
	alts = rec(v, map[ssa.Value]bool{})
	return alts, ok
}
