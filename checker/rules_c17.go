package main

// C17 — parallel pod operations are race free and lose no error.

import (
	"fmt"
	"go/token"
	"go/types"
	"sort"
	"strings"

	"golang.org/x/tools/go/ssa"
)

func init() {
	register("C17", "Decides the structural part of race freedom and error propagation of the parallel pod operations: "+
		"(R1) for every `go` statement of the repository, every variable captured by (or pointer handed to) the goroutine that is written by the goroutine, "+
		"by another instance of the same `go` statement (statement in a loop, variable allocated outside it) or by the spawner before a WaitGroup barrier, "+
		"is accessed on both sides under one common sync.Mutex/RWMutex that is itself shared, or only at the per-instance range index; a WaitGroup.Wait counts as a barrier only if the goroutine "+
		"defers Done on the same WaitGroup (or calls it on every path), never calls Add on it, and the spawner's Add dominates the `go`; writes inside repository callees that receive the shared pointer, and inside closures the spawner hands to the goroutine as function values, are included; "+
		"(R2) code reachable from the four Reconcile methods never writes a package-level variable or a reconciler field, and hands reconciler fields / package variables only to types on a short allow-list "+
		"(controller-runtime client, Scheme, logr, EventRecorder, Prometheus vectors, the apimachinery equality table, flowcontrol.Backoff); for flowcontrol.Backoff each method used is shown from its SSA to take the object's RWMutex before touching it and its Clock field is shown to be assigned only at construction; "+
		"(R3) every API write issued inside a goroutine of the replica-set reconciler (closure or named function) has its error collected on every path where it is non-nil — a send on the helper's channel or a store into the helper's slice, reached through a captured variable, a parameter, a repository callee or a closure handed in by the helper that does so on every path — "+
		"the spawning helper returns exactly the collected errors (exhaustive range over the channel, itself or in a repository function whose result it returns, or the captured slice), and in every caller the returned errors reach, on every path, "+
		"the ReconcileError condition writer, a PodsCleanupDone=False condition write, or a returned error that is followed further up to the replica-set Reconcile; "+
		"and the status object such a condition is written on is, by provenance, the one that is persisted: the very value handed to the function doing Status().Update, or the NewStatus of (or the value stored into the NewStatus of) the *Result the planner returns, followed through the dispatcher to the Reconcile, which hands that NewStatus to the status update on every path.", runC17)
}

func runC17(r *Run) {
	r.RuleDoc("C17.R1", "variables shared with goroutines are written only under a common shared mutex, at the per-instance index, or behind a WaitGroup barrier")
	r.RuleDoc("C17.R2", "reconcile-reachable code writes no package variable / reconciler field; shared objects are used only through internally synchronised types (Backoff methods lock first)")
	r.RuleDoc("C17.R3", "errors of API writes issued in goroutines are collected, returned by the helper and reach ReconcileError / PodsCleanupDone / a returned error in every caller; the condition is written on the status object that is persisted")
	r.Floor("C17.R1", 6)
	r.Floor("C17.R2", 20)
	r.Floor("C17.R3", 13)
	r.NotCovered("races inside client libraries, the fake client or any function outside the repository (they are assumed not to write through the pointers they receive); " +
		"dynamic schedules, deadlocks, sends on a closed or full channel; happens-before through channels (only WaitGroup barriers and mutexes are recognised, anything else is reported); " +
		"that the ReconcileError/PodsCleanupDone condition written to the in-memory status is finally persisted (C09/C14); the clean-up error returned by cleanupPods to ManageDeployment is not required to be returned further (PodsCleanupDone reflects it)")

	c17CondWriterMemo = map[string]bool{}
	c17StatusSinks = nil
	c17GoOf = map[*ssa.Function]*ssa.Go{}
	ws := newWriteSummary(r.Prog)
	c17Race(r, ws)
	c17SharedState(r, ws)
	c17ErrSink(r)
	c17Imports(r)
}

// ---------------------------------------------------------------------------------------------
// R1 RACE

type c17Access struct {
	instr    ssa.Instruction
	datum    string // "var errs" / "arg n"
	level    int    // 0 = the variable / pointee itself, n = memory reached after n loads
	write    bool
	held     map[string]bool
	distinct bool
	what     string
	inG      bool
}

// c17Namer maps a chain to the datum it touches: name and level relative to the datum's pointer.
type c17Namer func(c dChain) (name string, level int, ok bool)

func c17LoadsBefore(c dChain, j int) int {
	n := 0
	for i := 0; i < j && i < len(c.Via); i++ {
		if u, ok := c.Via[i].(*ssa.UnOp); ok && u.Op == token.MUL {
			n++
		}
	}
	return n
}

// c17InstrAccesses lists the memory accesses of one instruction that touch a named datum.
func c17InstrAccesses(r *Run, in ssa.Instruction, name c17Namer, ws *dWriteSummary, undecided *[]string) []c17Access {
	var out []c17Access
	// The level of an access is the number of pointer loads between the datum's pointer and the
	// accessed memory; for "content" operands (maps, slices, pointers handed to a callee) the memory
	// the value points to sits at exactly the number of loads needed to obtain the value.
	add := func(v ssa.Value, content, write bool, what string) {
		for _, c := range dChains(v, true) {
			n, lvl, ok := name(c)
			if !ok {
				continue
			}
			a := c17Access{instr: in, datum: n, level: lvl, write: write, what: what}
			// per-instance index: an index operand that is a goroutine parameter, with no pointer load
			// between the indexed element and the accessed memory
			for k, via := range c.Via {
				var idx ssa.Value
				switch x := via.(type) {
				case *ssa.IndexAddr:
					idx = x.Index
				case *ssa.Index:
					idx = x.Index
				}
				if idx == nil {
					continue
				}
				if p, ok := unwrap(idx).(*ssa.Parameter); ok && c17LoadsBefore(c, k) == 0 {
					a.distinct = c17RangeIndexArg(p)
				}
			}
			out = append(out, a)
		}
	}
	switch x := in.(type) {
	case *ssa.Store:
		add(x.Addr, false, true, "store")
	case *ssa.MapUpdate:
		add(x.Map, true, true, "map update")
	case *ssa.UnOp:
		if x.Op == token.MUL {
			add(x.X, false, false, "load")
		}
	case *ssa.Lookup:
		add(x.X, true, false, "lookup")
	case *ssa.Range:
		add(x.X, true, false, "range")
	case *ssa.MakeClosure:
		for _, b := range x.Bindings {
			for _, c := range dChains(b, true) {
				if n, _, ok := name(c); ok {
					*undecided = append(*undecided, fmt.Sprintf("%s is captured by a nested closure at %s", n, r.Prog.Pos(x.Pos())))
				}
			}
		}
	case ssa.CallInstruction:
		c := x.Common()
		if b := dBuiltin(c); b != "" {
			switch b {
			case "append", "copy", "delete", "clear":
				if len(c.Args) > 0 {
					add(c.Args[0], true, true, "builtin "+b)
				}
				for _, a := range c.Args[1:] {
					if dPointerLike(a.Type()) {
						add(a, true, false, "builtin "+b+" operand")
					}
				}
			}
			return out
		}
		if _, isSync := dIsSyncCall(c); isSync {
			return out
		}
		callee := staticCallee(c)
		for j, a := range c.Args {
			if !dPointerLike(a.Type()) {
				continue
			}
			if callee != nil && r.Prog.IsRepoFunc(callee) {
				if ws.Writes(callee, j) {
					add(a, true, true, "passed to "+shortFunc(callee)+" which writes through it ("+ws.Why[callee][j]+")")
				} else {
					add(a, true, false, "passed to "+shortFunc(callee))
				}
				continue
			}
			// outside the repository: assumed to read only — except when the address of the shared
			// variable itself is handed over
			for _, ch := range dChains(a, true) {
				if n, lvl, ok := name(ch); ok && strings.HasPrefix(n, "var ") {
					if lvl == 0 && len(ch.Path) == 0 && unwrap(a) == ch.Via[len(ch.Via)-1] {
						*undecided = append(*undecided, fmt.Sprintf("address of %s is handed to %s at %s", n, calleeName(c), r.Prog.Pos(instrPos(in))))
					}
				}
			}
			add(a, true, false, "passed to "+calleeName(c))
		}
	}
	return out
}

// c17RangeIndexArg reports whether the goroutine parameter p is fed, at the `go` statement, by the
// index of the range loop the statement sits in (a fresh value per instance).
var c17GoOf = map[*ssa.Function]*ssa.Go{}

func c17RangeIndexArg(p *ssa.Parameter) bool {
	g := c17GoOf[p.Parent()]
	if g == nil {
		return false
	}
	i := paramIndex(p)
	args := g.Call.Args
	if g.Call.IsInvoke() || i < 0 || i >= len(args) {
		return false
	}
	bo, ok := unwrap(args[i]).(*ssa.BinOp)
	if !ok || bo.Op != token.ADD {
		return false
	}
	phi, ok := bo.X.(*ssa.Phi)
	if !ok || phi.Comment != "rangeindex" {
		return false
	}
	if one, ok := constInt(bo.Y); !ok || one != 1 {
		return false
	}
	// every back edge of the induction variable is this increment
	for j, e := range phi.Edges {
		if e == ssa.Value(bo) {
			continue
		}
		if c, ok := constInt(e); ok && c == -1 && !dReaches(phi.Block(), phi.Block().Preds[j]) {
			continue
		}
		return false
	}
	return true
}

// c17Held computes, for every instruction of fn, the mutexes certainly held when it executes.
// Entries are "W:<name>" (Lock) and "R:<name>" (RLock).
func c17Held(fn *ssa.Function, mutexName func(v ssa.Value) string) map[ssa.Instruction]map[string]bool {
	in := map[*ssa.BasicBlock]map[string]bool{}
	reached := map[*ssa.BasicBlock]bool{}
	if len(fn.Blocks) == 0 {
		return nil
	}
	transfer := func(s map[string]bool, ins ssa.Instruction) {
		call, ok := ins.(*ssa.Call)
		if !ok {
			return
		}
		name, isSync := dIsSyncCall(&call.Call)
		if !isSync || len(call.Call.Args) == 0 {
			return
		}
		m := mutexName(call.Call.Args[0])
		if m == "" {
			return
		}
		switch name {
		case "Lock":
			s["W:"+m] = true
		case "RLock":
			s["R:"+m] = true
		case "Unlock":
			delete(s, "W:"+m)
		case "RUnlock":
			delete(s, "R:"+m)
		}
	}
	in[fn.Blocks[0]] = map[string]bool{}
	reached[fn.Blocks[0]] = true
	out := map[ssa.Instruction]map[string]bool{}
	for iter, changed := 0, true; changed && iter < 100; iter++ {
		changed = false
		for _, b := range fn.Blocks {
			if !reached[b] {
				continue
			}
			s := map[string]bool{}
			for k := range in[b] {
				s[k] = true
			}
			for _, ins := range b.Instrs {
				cp := map[string]bool{}
				for k := range s {
					cp[k] = true
				}
				out[ins] = cp
				transfer(s, ins)
			}
			for _, succ := range b.Succs {
				if !reached[succ] {
					reached[succ] = true
					cp := map[string]bool{}
					for k := range s {
						cp[k] = true
					}
					in[succ] = cp
					changed = true
					continue
				}
				for k := range in[succ] {
					if !s[k] {
						delete(in[succ], k)
						changed = true
					}
				}
			}
		}
	}
	return out
}

func c17Protected(a, b c17Access) bool {
	for k := range a.held {
		if !strings.HasPrefix(k, "W:") && !strings.HasPrefix(k, "R:") {
			continue
		}
		m := k[2:]
		aw, ar := a.held["W:"+m], a.held["R:"+m]
		bw, br := b.held["W:"+m], b.held["R:"+m]
		okA := aw || (ar && !a.write)
		okB := bw || (br && !b.write)
		if okA && okB {
			return true
		}
	}
	return false
}

func c17Race(r *Run, ws *dWriteSummary) {
	for _, fn := range r.Prog.RepoFuncs() {
		for _, b := range fn.Blocks {
			for _, in := range b.Instrs {
				if g, ok := in.(*ssa.Go); ok {
					c17RaceAt(r, ws, fn, g)
				}
			}
		}
	}
}

func c17RaceAt(r *Run, ws *dWriteSummary, spawner *ssa.Function, g *ssa.Go) {
	pos := r.Prog.Pos(g.Pos())
	sf := shortFunc(spawner)
	callee := staticCallee(&g.Call)
	if callee == nil {
		r.Undecided("C17.R1", "go "+calleeName(&g.Call), pos, sf, "the goroutine's function is not statically known")
		return
	}
	gname := shortFunc(callee)
	if callee.Parent() != nil {
		gname = "closure" + strings.TrimPrefix(shortFunc(callee), shortFunc(callee.Parent()))
	}
	construct := "go " + gname
	if !r.Prog.IsRepoFunc(callee) || len(callee.Blocks) == 0 {
		// a function outside the repository: its arguments must not be written by the spawner afterwards
		var bad []string
		for _, ins := range c17AfterGo(g, func(ssa.Instruction) bool { return false }) {
			for _, w := range dMemWrites(ins) {
				for _, c := range dChains(w.V, true) {
					for _, a := range g.Call.Args {
						for _, via := range c.Via {
							if via == a && dPointerLike(a.Type()) {
								bad = append(bad, fmt.Sprintf("memory handed to the goroutine is written at %s", r.Prog.Pos(instrPos(ins))))
							}
						}
					}
				}
			}
		}
		o := r.Check("C17.R1", construct, pos, sf, "memory handed to a goroutine running library code is not written by the spawner afterwards", len(bad) == 0, strings.Join(bad, "; "))
		o.Trivial = len(bad) == 0
		return
	}
	c17GoOf[callee] = g

	// bindings of the goroutine's free variables in the spawner
	var mc *ssa.MakeClosure
	if m, ok := g.Call.Value.(*ssa.MakeClosure); ok {
		mc = m
	}
	binding := map[*ssa.FreeVar]ssa.Value{}
	if mc != nil {
		for i, fv := range callee.FreeVars {
			if i < len(mc.Bindings) {
				binding[fv] = mc.Bindings[i]
			}
		}
	}
	multi := dReaches(g.Block(), g.Block())
	// is a spawner value allocated afresh for every execution of the go statement?
	perInstance := func(v ssa.Value) bool {
		a, ok := v.(*ssa.Alloc)
		if !ok || a.Parent() != spawner {
			return false
		}
		if !multi {
			return true
		}
		if a.Block() == g.Block() {
			return dInstrIndex(a) < dInstrIndex(g)
		}
		return a.Block().Dominates(g.Block()) && dReaches(g.Block(), a.Block())
	}

	var undecided []string
	// closures made by the spawner and handed to the goroutine as function values: what they do to the
	// variables they capture is done by the goroutine
	extraFV := map[*ssa.FreeVar]bool{}
	var argClosures []*ssa.Function
	if !g.Call.IsInvoke() {
		for _, a := range g.Call.Args {
			v := a
			if al, ok := v.(*ssa.Alloc); ok {
				if cv := dCellValue(al); cv != nil {
					v = cv
				}
			}
			m, ok := v.(*ssa.MakeClosure)
			if !ok {
				continue
			}
			f2, ok := m.Fn.(*ssa.Function)
			if !ok {
				continue
			}
			argClosures = append(argClosures, f2)
			for i, fv := range f2.FreeVars {
				if i < len(m.Bindings) {
					extraFV[fv] = true
					binding[fv] = m.Bindings[i]
				}
			}
		}
	}
	// goroutine side
	gNamer := func(c dChain) (string, int, bool) {
		switch x := c.Root.(type) {
		case *ssa.FreeVar:
			if x.Parent() == callee || extraFV[x] {
				return "var " + x.Name(), c.Loads, true
			}
		case *ssa.Parameter:
			if x.Parent() == callee && dPointerLike(x.Type()) {
				return "arg " + x.Name(), c.Loads, true
			}
		}
		return "", 0, false
	}
	gMutex := func(v ssa.Value) string {
		for _, c := range dChains(v, true) {
			if n, _, ok := gNamer(c); ok {
				p := ""
				for i := len(c.Path) - 1; i >= 0; i-- {
					p += "." + c.Path[i]
				}
				return n + p
			}
		}
		return ""
	}
	gHeld := c17Held(callee, gMutex)
	var acc []c17Access
	type wgUse struct{ done, doneAlways, add bool }
	wg := map[string]*wgUse{}
	for _, b := range callee.Blocks {
		for _, ins := range b.Instrs {
			for _, a := range c17InstrAccesses(r, ins, gNamer, ws, &undecided) {
				a.held = gHeld[ins]
				a.inG = true
				acc = append(acc, a)
			}
			if ci, ok := ins.(ssa.CallInstruction); ok {
				if name, isSync := dIsSyncCall(ci.Common()); isSync && len(ci.Common().Args) > 0 {
					m := gMutex(ci.Common().Args[0])
					if m == "" {
						continue
					}
					if wg[m] == nil {
						wg[m] = &wgUse{}
					}
					switch name {
					case "Done":
						wg[m].done = true
						_, isDefer := ins.(*ssa.Defer)
						if isDefer && b == callee.Blocks[0] {
							wg[m].doneAlways = true
						} else if !isDefer {
							all := true
							for _, rb := range callee.Blocks {
								if isReturnBlock(rb) && len(rb.Preds) > 0 && !(b == rb || b.Dominates(rb)) {
									all = false
								}
							}
							if all {
								wg[m].doneAlways = true
							}
						}
					case "Add":
						wg[m].add = true
					}
				}
			}
		}
	}

	for _, f2 := range argClosures {
		held2 := c17Held(f2, gMutex)
		for _, b := range f2.Blocks {
			for _, ins := range b.Instrs {
				for _, a := range c17InstrAccesses(r, ins, gNamer, ws, &undecided) {
					a.held = held2[ins]
					a.inG = true
					acc = append(acc, a)
				}
			}
		}
	}

	// spawner side: names of the same data
	sNamer := func(c dChain) (string, int, bool) {
		for fv, bv := range binding {
			for j, via := range c.Via {
				if via == bv {
					return "var " + fv.Name(), c17LoadsBefore(c, j), true
				}
			}
		}
		if !g.Call.IsInvoke() {
			for i, a := range g.Call.Args {
				if i >= len(callee.Params) || !dPointerLike(a.Type()) {
					continue
				}
				if _, isConst := a.(*ssa.Const); isConst {
					continue
				}
				for j, via := range c.Via {
					if via == a {
						return "arg " + callee.Params[i].Name(), c17LoadsBefore(c, j), true
					}
				}
			}
		}
		return "", 0, false
	}
	sMutex := func(v ssa.Value) string {
		for _, c := range dChains(v, true) {
			if n, _, ok := sNamer(c); ok {
				// field path between the shared variable and the value
				p := ""
				for _, via := range c.Via {
					stop := false
					for _, bv := range binding {
						if via == bv {
							stop = true
						}
					}
					if stop {
						break
					}
					if fa, ok := via.(*ssa.FieldAddr); ok {
						p = "." + fieldName(fa) + p
					}
				}
				return n + p
			}
		}
		return ""
	}
	sHeld := c17Held(spawner, sMutex)
	// barrier: Wait on a WaitGroup the goroutine always signals, Add dominating the go statement
	addDominates := map[string]bool{}
	for _, b := range spawner.Blocks {
		for _, ins := range b.Instrs {
			if ci, ok := ins.(*ssa.Call); ok {
				if name, isSync := dIsSyncCall(&ci.Call); isSync && name == "Add" && len(ci.Call.Args) > 0 {
					if m := sMutex(ci.Call.Args[0]); m != "" && c17AddCounts(ci, g) {
						addDominates[m] = true
					}
				}
			}
		}
	}
	isBarrier := func(ins ssa.Instruction) bool {
		ci, ok := ins.(*ssa.Call)
		if !ok {
			return false
		}
		name, isSync := dIsSyncCall(&ci.Call)
		if !isSync || name != "Wait" || len(ci.Call.Args) == 0 {
			return false
		}
		m := sMutex(ci.Call.Args[0])
		u := wg[m]
		return m != "" && u != nil && u.doneAlways && !u.add && addDominates[m]
	}
	// a variable allocated afresh for every execution of the go statement is a different variable once its
	// allocation is executed again: only what the spawner does before that touches this goroutine's copy
	sameCell := map[string]map[ssa.Instruction]bool{}
	for fv, bv := range binding {
		if al, ok := bv.(*ssa.Alloc); ok && multi && perInstance(bv) {
			set := map[ssa.Instruction]bool{}
			for _, ins := range c17AfterGo(g, func(x ssa.Instruction) bool { return isBarrier(x) || x == ssa.Instruction(al) }) {
				set[ins] = true
			}
			sameCell["var "+fv.Name()] = set
		}
	}
	for _, ins := range c17AfterGo(g, isBarrier) {
		if ins == ssa.Instruction(g) {
			continue
		}
		if m, ok := ins.(*ssa.MakeClosure); ok && m == mc {
			continue
		}
		var und []string
		for _, a := range c17InstrAccesses(r, ins, sNamer, ws, &und) {
			if set, fresh := sameCell[a.datum]; fresh && a.level == 0 && !set[ins] {
				continue
			}
			a.held = sHeld[ins]
			acc = append(acc, a)
		}
		// another closure created by the spawner after the go statement (a second goroutine, a deferred
		// function) that captures the same variables runs concurrently with this goroutine: its accesses
		// count as spawner-side accesses
		if m, ok := ins.(*ssa.MakeClosure); ok {
			other, _ := m.Fn.(*ssa.Function)
			if other == nil {
				continue
			}
			oname := map[*ssa.FreeVar]string{}
			for i, ofv := range other.FreeVars {
				if i >= len(m.Bindings) {
					continue
				}
				for fv, bv := range binding {
					if m.Bindings[i] == bv {
						oname[ofv] = "var " + fv.Name()
					}
				}
			}
			if len(oname) == 0 {
				continue
			}
			oNamer := func(c dChain) (string, int, bool) {
				if fv, ok := c.Root.(*ssa.FreeVar); ok {
					if n, ok := oname[fv]; ok {
						return n, c.Loads, true
					}
				}
				return "", 0, false
			}
			oMutex := func(v ssa.Value) string {
				for _, c := range dChains(v, true) {
					if n, _, ok := oNamer(c); ok {
						p := ""
						for i := len(c.Path) - 1; i >= 0; i-- {
							p += "." + c.Path[i]
						}
						return n + p
					}
				}
				return ""
			}
			oHeld := c17Held(other, oMutex)
			for _, ob := range other.Blocks {
				for _, oi := range ob.Instrs {
					for _, a := range c17InstrAccesses(r, oi, oNamer, ws, &undecided) {
						a.held = oHeld[oi]
						acc = append(acc, a)
					}
				}
			}
		}
	}

	// group by datum
	type key struct {
		name  string
		level int
	}
	groups := map[key][]c17Access{}
	for _, a := range acc {
		k := key{a.datum, a.level}
		groups[k] = append(groups[k], a)
	}
	var keys []key
	for k := range groups {
		keys = append(keys, k)
	}
	sort.Slice(keys, func(i, j int) bool {
		if keys[i].name != keys[j].name {
			return keys[i].name < keys[j].name
		}
		return keys[i].level < keys[j].level
	})
	sharedAcross := func(name string) bool {
		if !multi {
			return false
		}
		if strings.HasPrefix(name, "var ") {
			for fv, bv := range binding {
				if "var "+fv.Name() == name {
					return !perInstance(bv)
				}
			}
		}
		return true
	}
	mutexShared := func(m string) bool {
		// the mutex protecting instances against each other must itself be one object for all instances
		root := m
		if i := strings.Index(m, "."); i >= 0 {
			root = m[:i]
		}
		return sharedAcross(root) || !multi
	}
	nWritten := 0
	for _, k := range keys {
		as := groups[k]
		hasWrite := false
		for _, a := range as {
			if a.write {
				hasWrite = true
			}
		}
		if !hasWrite {
			continue
		}
		nWritten++
		var conflicts []string
		first := as[0].instr
		for i, a := range as {
			if a.write && a.inG {
				first = a.instr
			}
			for j := i; j < len(as); j++ {
				b := as[j]
				if !a.write && !b.write {
					continue
				}
				concurrent := false
				switch {
				case a.inG && b.inG:
					concurrent = sharedAcross(k.name)
				case a.inG != b.inG:
					concurrent = true
				}
				if !concurrent {
					continue
				}
				if a.inG && b.inG && a.distinct && b.distinct {
					continue
				}
				prot := c17Protected(a, b)
				if prot && a.inG && b.inG {
					// the common mutex must be shared by the instances
					prot = false
					for h := range a.held {
						if b.held[h] && mutexShared(h[2:]) {
							prot = true
						}
					}
				}
				if prot {
					continue
				}
				side := func(x c17Access) string {
					s := "spawner"
					if x.inG {
						s = "goroutine"
					}
					rw := "read"
					if x.write {
						rw = "write"
					}
					return fmt.Sprintf("%s %s (%s) at %s", s, rw, x.what, r.Prog.Pos(instrPos(x.instr)))
				}
				if i == j {
					conflicts = append(conflicts, side(a)+" races with the same statement in another instance of the goroutine")
				} else {
					conflicts = append(conflicts, side(a)+" races with "+side(b))
				}
			}
		}
		sort.Strings(conflicts)
		if len(conflicts) > 3 {
			conflicts = append(conflicts[:3], fmt.Sprintf("… %d more", len(conflicts)-3))
		}
		lvl := ""
		if k.level > 0 {
			lvl = fmt.Sprintf(" (memory reached through %d load(s))", k.level)
		}
		detail := strings.Join(conflicts, "; ")
		if len(conflicts) == 0 {
			detail = "every concurrent access pair holds a common shared mutex, uses the per-instance index, or is ordered by a WaitGroup barrier"
		}
		r.Check("C17.R1", construct+" "+k.name+lvl, r.Prog.Pos(instrPos(first)), sf,
			"concurrent accesses to a variable written by a goroutine are synchronised (common shared mutex / per-instance index / WaitGroup barrier)", len(conflicts) == 0, detail)
	}
	for _, u := range undecided {
		r.Undecided("C17.R1", construct+" escape", pos, sf, u)
	}
	if nWritten == 0 && len(undecided) == 0 {
		o := r.Check("C17.R1", construct, pos, sf, "no variable shared with the goroutine is written concurrently", true, "the goroutine and the spawner only read the shared variables (channel and sync operations aside)")
		o.Trivial = true
	}
}

// c17AfterGo lists the spawner's instructions that can execute after the go statement without a
// barrier in between.
func c17AfterGo(g *ssa.Go, isBarrier func(ssa.Instruction) bool) []ssa.Instruction {
	var out []ssa.Instruction
	seen := map[*ssa.BasicBlock]bool{}
	var walk func(b *ssa.BasicBlock, from int)
	walk = func(b *ssa.BasicBlock, from int) {
		for i := from; i < len(b.Instrs); i++ {
			if isBarrier(b.Instrs[i]) {
				return
			}
			out = append(out, b.Instrs[i])
		}
		for _, s := range b.Succs {
			if !seen[s] {
				seen[s] = true
				walk(s, 0)
			}
		}
	}
	walk(g.Block(), dInstrIndex(g)+1)
	return out
}

// ---------------------------------------------------------------------------------------------
// R2 shared reconciler state

var c17SharedTypes = []struct{ prefix, reason string }{
	{"sigs.k8s.io/controller-runtime/pkg/client.", "controller-runtime client: safe for concurrent use (standing assumption)"},
	{"*k8s.io/apimachinery/pkg/runtime.Scheme", "type registry, filled before the manager starts, read-only afterwards"},
	{"github.com/go-logr/logr.Logger", "logger value"},
	{"k8s.io/client-go/tools/record.EventRecorder", "event recorder: safe for concurrent use"},
	{"*github.com/prometheus/client_golang/prometheus.", "Prometheus vector: internally synchronised (standing assumption)"},
	{"k8s.io/apimachinery/third_party/forked/golang/reflect.Equalities", "apimachinery equality table: read-only after init"},
}

func c17SharedState(r *Run, ws *dWriteSummary) {
	entries := reconcileEntries(r)
	var roots []*ssa.Function
	var names []string
	for n := range entries {
		names = append(names, n)
	}
	sort.Strings(names)
	for _, n := range names {
		roots = append(roots, entries[n])
	}
	reach := dReachable(r.Prog, roots...)
	seen := map[string]bool{}
	backoffChecked := map[string]bool{}
	for _, w := range dStateWrites(r.Prog, reach, ws) {
		pos := r.Prog.Pos(instrPos(w.Instr))
		fn := shortFunc(w.Fn)
		if w.Kind == "write" {
			r.Check("C17.R2", "write "+w.What, pos, fn, "code reachable from a Reconcile method does not write state shared by concurrent reconciles", false, w.What+": "+w.How)
			continue
		}
		construct := w.What + " via " + strings.TrimPrefix(w.Sel, "iface:")
		if seen[construct+"|"+fn] {
			continue
		}
		seen[construct+"|"+fn] = true
		switch {
		case strings.Contains(w.Type, "k8s.io/client-go/util/flowcontrol.Backoff"):
			callee := staticCallee(w.Instr.(ssa.CallInstruction).Common())
			ok, why := c17LockFirst(callee)
			r.Check("C17.R2", construct, pos, fn, "a flowcontrol.Backoff shared by all syncs is used only through methods that take its lock before touching it", ok, why)
			backoffChecked[w.Sel] = true
		case strings.HasPrefix(w.Type, "k8s.io/utils/clock."):
			ok, why := c17FieldImmutable(r, "k8s.io/client-go/util/flowcontrol", "Backoff", "Clock")
			r.Check("C17.R2", construct, pos, fn, "the Backoff's Clock is read without the lock only because it is never reassigned after construction", ok, why)
		default:
			okT, reason := false, "type "+w.Type+" is not on the list of internally synchronised / read-only types"
			for _, t := range c17SharedTypes {
				if strings.HasPrefix(w.Type, t.prefix) {
					okT, reason = true, t.reason
				}
			}
			o := r.Check("C17.R2", construct, pos, fn, "shared reconciler state / package variables are handed only to internally synchronised or read-only types", okT, reason)
			o.Trivial = okT
		}
	}
	o := r.Check("C17.R2", "no direct write", "-", "-", "no store, map update or append on memory rooted at a package variable or a reconciler in reconcile-reachable code", true,
		fmt.Sprintf("%d reachable functions scanned (writes are reported individually)", len(reach)))
	o.Trivial = true
}

// c17LockFirst checks that a method takes a sync lock on a field of its receiver before any other
// access to the receiver's memory, and releases it by a deferred unlock.
func c17LockFirst(fn *ssa.Function) (bool, string) {
	if fn == nil || len(fn.Blocks) == 0 || len(fn.Params) == 0 {
		return false, "method body not available"
	}
	recv := fn.Params[0]
	locked, deferred := false, false
	for _, ins := range fn.Blocks[0].Instrs {
		switch x := ins.(type) {
		case *ssa.FieldAddr:
			continue
		case *ssa.Alloc:
			continue
		case *ssa.Call:
			if name, isSync := dIsSyncCall(&x.Call); isSync && (name == "Lock" || name == "RLock") && len(x.Call.Args) > 0 {
				for _, c := range dChains(x.Call.Args[0], false) {
					if c.Root == ssa.Value(recv) && c.Loads == 0 {
						locked = true
					}
				}
				continue
			}
			if !locked {
				return false, "calls " + calleeName(&x.Call) + " before taking the lock"
			}
		case *ssa.Defer:
			if name, isSync := dIsSyncCall(&x.Call); isSync && (name == "Unlock" || name == "RUnlock") && locked {
				deferred = true
				continue
			}
		case *ssa.UnOp:
			if !locked {
				for _, c := range dChains(x.X, false) {
					if c.Root == ssa.Value(recv) {
						return false, "reads the receiver before taking the lock"
					}
				}
			}
		case *ssa.Store:
			if !locked {
				for _, c := range dChains(x.Addr, false) {
					if c.Root == ssa.Value(recv) {
						return false, "writes the receiver before taking the lock"
					}
				}
			}
		}
		if locked && deferred {
			return true, shortFunc(fn) + " locks the receiver's mutex first and defers the unlock"
		}
	}
	if locked && deferred {
		return true, shortFunc(fn) + " locks the receiver's mutex first and defers the unlock"
	}
	return false, "no Lock/RLock on a receiver field with deferred unlock at the start of " + funcName(fn)
}

// c17FieldImmutable checks that field `field` of pkg.typ is stored only on freshly allocated objects.
func c17FieldImmutable(r *Run, pkg, typ, field string) (bool, string) {
	sp := r.Prog.SSAPkg(pkg)
	if sp == nil {
		return false, "package " + pkg + " not loaded"
	}
	named := r.Prog.Named(pkg, typ)
	if named == nil {
		return false, "type not found"
	}
	n := 0
	var fns []*ssa.Function
	for _, m := range sp.Members {
		if f, ok := m.(*ssa.Function); ok {
			fns = append(fns, f)
		}
	}
	for _, t := range []types.Type{named, types.NewPointer(named)} {
		ms := r.Prog.SSA.MethodSets.MethodSet(t)
		for i := 0; i < ms.Len(); i++ {
			if f := r.Prog.SSA.MethodValue(ms.At(i)); f != nil {
				fns = append(fns, f)
			}
		}
	}
	for _, f := range fns {
		for _, b := range f.Blocks {
			for _, ins := range b.Instrs {
				st, ok := ins.(*ssa.Store)
				if !ok {
					continue
				}
				fa, ok := st.Addr.(*ssa.FieldAddr)
				if !ok || fieldName(fa) != field || dNamedOf(fa.X.Type()) != named {
					continue
				}
				n++
				if _, fresh := fa.X.(*ssa.Alloc); !fresh {
					return false, fmt.Sprintf("%s.%s is assigned on an existing object in %s", typ, field, funcName(f))
				}
			}
		}
	}
	return true, fmt.Sprintf("%s.%s is assigned only on freshly allocated objects (%d constructor stores in %s)", typ, field, n, pkg)
}

// ---------------------------------------------------------------------------------------------
// R3 ERRSINK

func c17ErrSink(r *Run) {
	ers := r.Prog.Method(pkgERS, "Reconciler", "Reconcile")
	if ers == nil {
		r.Fatal("anchor (%s.Reconciler).Reconcile not found", pkgERS)
		return
	}
	reach := dReachable(r.Prog, ers)
	type helperRet struct {
		fn  *ssa.Function
		why string
	}
	helpers := map[*ssa.Function]string{}
	for _, fn := range sortedFuncs(reach) {
		for _, ci := range callsIn(fn) {
			g, ok := ci.(*ssa.Go)
			if !ok {
				continue
			}
			body := staticCallee(&g.Call)
			if body == nil || !r.Prog.IsRepoFunc(body) {
				continue
			}
			for _, c := range callsIn(body) {
				e := clientEffect(body, c)
				if e == nil || !isWriteVerb(e.Verb) {
					continue
				}
				// the chain is followed further even if a step fails, so that every link is reported on its own
				c17Collected(r, fn, body, g, e)
				helpers[fn] = e.String()
			}
		}
	}
	// propagate the helpers' results up to the Reconcile
	type item struct {
		fn    *ssa.Function // function whose result #idx carries the errors
		idx   int
		depth int
		what  string
	}
	var work []item
	for _, h := range sortedFuncs(map[*ssa.Function]bool{}) {
		_ = h
	}
	var hs []*ssa.Function
	for h := range helpers {
		hs = append(hs, h)
	}
	sort.Slice(hs, func(i, j int) bool { return funcName(hs[i]) < funcName(hs[j]) })
	for _, h := range hs {
		idx := c17ErrResultIndex(h)
		if idx < 0 {
			continue
		}
		work = append(work, item{h, idx, 0, "errors of " + helpers[h] + " collected by " + shortFunc(h)})
	}
	done := map[string]bool{}
	for len(work) > 0 {
		it := work[0]
		work = work[1:]
		k := fmt.Sprintf("%s#%d", funcName(it.fn), it.idx)
		if done[k] {
			continue
		}
		done[k] = true
		sites := dCallSitesIn(r.Prog, it.fn, reach)
		if len(sites) == 0 {
			r.Check("C17.R3", "callers of "+shortFunc(it.fn), r.Prog.Pos(it.fn.Pos()), shortFunc(it.fn), "the helper is called from the replica-set reconcile", false, "no static call site reachable from the Reconcile")
		}
		for _, cs := range sites {
			call, ok := cs.(*ssa.Call)
			if !ok {
				r.Undecided("C17.R3", "result of "+shortFunc(it.fn), r.Prog.Pos(cs.Pos()), shortFunc(cs.Parent()), "the helper is started with go/defer: its result is dropped")
				continue
			}
			var src ssa.Value = call
			if it.fn.Signature.Results().Len() > 1 {
				src = nil
				for _, rf := range refs(call) {
					if ex, ok := rf.(*ssa.Extract); ok && ex.Index == it.idx {
						src = ex
					}
				}
				if src == nil {
					r.Check("C17.R3", "result of "+shortFunc(it.fn), r.Prog.Pos(call.Pos()), shortFunc(call.Parent()), "the error result of the helper is used", false, "result is discarded")
					continue
				}
			}
			returnsIdx := c17CallerSinks(r, call, src, it.fn, it.what, call.Parent() == ers)
			for _, ri := range returnsIdx {
				if it.depth < 5 {
					work = append(work, item{call.Parent(), ri, it.depth + 1, it.what})
				} else {
					r.Undecided("C17.R3", "propagation depth", r.Prog.Pos(call.Pos()), shortFunc(call.Parent()), "error is returned through more than 5 call levels")
				}
			}
		}
	}
	c17StatusPersisted(r, ers, reach)
}

func c17ErrResultIndex(fn *ssa.Function) int {
	res := fn.Signature.Results()
	for i := 0; i < res.Len(); i++ {
		if c17IsErrType(res.At(i).Type()) {
			return i
		}
	}
	return -1
}

func c17IsErrType(t types.Type) bool {
	if s, ok := t.Underlying().(*types.Slice); ok {
		t = s.Elem()
	}
	if n, ok := t.(*types.Named); ok && n.Obj().Pkg() == nil && n.Obj().Name() == "error" {
		return true
	}
	if n, ok := t.(*types.Named); ok && n.Obj().Name() == "Aggregate" {
		return true
	}
	return false
}

// c17Col is one place where an error value is handed over to the spawning helper: a channel send,
// a store into a slice variable, or a call (of a repository function, or of a closure the helper
// passed in) that does one of these with its argument on every path.
type c17Col struct {
	instr ssa.Instruction
	cont  ssa.Value // the helper-level root of the container (variable cell or make(chan))
	kind  string    // "chan" | "slice"
	name  string
}

// c17Env maps a free variable or parameter of a function running on behalf of the helper to the
// helper-level value it stands for (nil if unknown).
type c17Env func(v ssa.Value) ssa.Value

// c17ContRoot is the single root a container value is reached from (nil if ambiguous).
func c17ContRoot(v ssa.Value) ssa.Value {
	if v == nil {
		return nil
	}
	var root ssa.Value
	for _, c := range dChains(v, true) {
		if len(c.Path) != 0 {
			return nil
		}
		if root != nil && root != c.Root {
			return nil
		}
		root = c.Root
	}
	// a channel or pointer variable assigned once (e.g. a parameter captured by the closer goroutine) stands for that value
	if a, ok := root.(*ssa.Alloc); ok {
		if pt, ok := a.Type().(*types.Pointer); ok {
			_, isCh := pt.Elem().Underlying().(*types.Chan)
			_, isPtr := pt.Elem().Underlying().(*types.Pointer)
			if isCh || isPtr {
				if v0 := dCellValue(a); v0 != nil && v0 != v {
					if r2 := c17ContRoot(v0); r2 != nil {
						return r2
					}
				}
			}
		}
	}
	return root
}

func c17RootName(v ssa.Value) string {
	switch x := v.(type) {
	case *ssa.Alloc:
		return x.Comment
	case *ssa.Parameter:
		return x.Name()
	case *ssa.FreeVar:
		return x.Name()
	}
	return "error container"
}

// c17FindCollectors lists the collectors of the error value accepted by isErr inside fn.
func c17FindCollectors(r *Run, fn *ssa.Function, isErr func(ssa.Value) bool, env c17Env, depth int) []c17Col {
	var cols []c17Col
	if fn == nil || depth > 3 {
		return nil
	}
	// the helper-level value behind a value of fn that is (a load of) a free variable or a parameter
	lift := func(v ssa.Value) ssa.Value {
		var out ssa.Value
		for _, c := range dChains(v, false) {
			if len(c.Path) != 0 || c.Loads > 1 {
				return nil
			}
			switch c.Root.(type) {
			case *ssa.FreeVar, *ssa.Parameter:
				h := env(c.Root)
				if h == nil || (out != nil && out != h) {
					return nil
				}
				out = h
			default:
				return nil
			}
		}
		return out
	}
	for _, b := range fn.Blocks {
		for _, ins := range b.Instrs {
			switch x := ins.(type) {
			case *ssa.Send:
				if isErr(x.X) {
					if h := lift(x.Chan); h != nil {
						if root := c17ContRoot(h); root != nil {
							cols = append(cols, c17Col{ins, root, "chan", c17RootName(root)})
						}
					}
				}
			case *ssa.Store:
				// *v = append(*v, err)  or  (*v)[i] = err, v a captured variable or a pointer parameter
				var h ssa.Value
				for _, c := range dChains(x.Addr, false) {
					switch c.Root.(type) {
					case *ssa.FreeVar, *ssa.Parameter:
						if (c.Loads == 0 && len(c.Path) == 0 && anyOrigin(x.Val, isErr)) || (c.Loads == 1 && isErr(x.Val)) {
							h = env(c.Root)
						}
					}
				}
				if h != nil {
					if root := c17ContRoot(h); root != nil {
						cols = append(cols, c17Col{ins, root, "slice", c17RootName(root)})
					}
				}
			case *ssa.Call:
				if dBuiltin(&x.Call) != "" || x.Call.IsInvoke() {
					continue
				}
				j := -1
				for k, a := range x.Call.Args {
					if isErr(a) {
						j = k
					}
				}
				if j < 0 {
					continue
				}
				var target *ssa.Function
				var env2 c17Env
				args := x.Call.Args
				if callee := staticCallee(&x.Call); callee != nil {
					if !r.Prog.IsRepoFunc(callee) {
						continue
					}
					target = callee
					var mc *ssa.MakeClosure
					if m, ok := x.Call.Value.(*ssa.MakeClosure); ok {
						mc = m
					}
					env2 = func(v ssa.Value) ssa.Value {
						switch y := v.(type) {
						case *ssa.Parameter:
							if i := paramIndex(y); i >= 0 && i < len(args) {
								return lift(args[i])
							}
						case *ssa.FreeVar:
							if mc != nil {
								for i, fv := range callee.FreeVars {
									if fv == y && i < len(mc.Bindings) {
										return lift(mc.Bindings[i])
									}
								}
							}
						}
						return nil
					}
				} else {
					// a function value handed in by the helper: a closure made there
					h := lift(x.Call.Value)
					if a, ok := h.(*ssa.Alloc); ok {
						h = dCellValue(a)
					}
					m, ok := h.(*ssa.MakeClosure)
					if !ok {
						continue
					}
					f2, _ := m.Fn.(*ssa.Function)
					if f2 == nil {
						continue
					}
					target = f2
					env2 = func(v ssa.Value) ssa.Value {
						switch y := v.(type) {
						case *ssa.FreeVar:
							for i, fv := range f2.FreeVars {
								if fv == y && i < len(m.Bindings) {
									return m.Bindings[i] // already a helper-level value
								}
							}
						case *ssa.Parameter:
							if i := paramIndex(y); i >= 0 && i < len(args) {
								return lift(args[i])
							}
						}
						return nil
					}
				}
				if len(target.Blocks) == 0 || j >= len(target.Params) {
					continue
				}
				p2 := target.Params[j]
				isErr2 := func(v ssa.Value) bool { return unwrap(v) == ssa.Value(p2) }
				sub := c17FindCollectors(r, target, isErr2, env2, depth+1)
				if len(sub) == 0 {
					continue
				}
				if ok, _, used := c17AlwaysCollected(r, target, target.Blocks[0], nil, isErr2, sub); ok && used != nil {
					cols = append(cols, c17Col{ins, used.cont, used.kind, used.name})
				}
			}
		}
	}
	return cols
}

// c17AlwaysCollected: on every path from `after` (or the start of block `from`) to a return on
// which the error is not known to be nil, one of the collectors is executed; all collectors used
// feed one container.
func c17AlwaysCollected(r *Run, fn *ssa.Function, from *ssa.BasicBlock, after ssa.Instruction, isErr func(ssa.Value) bool, cols []c17Col) (bool, string, *c17Col) {
	k := newKeyer(fn)
	paths, okp := enumPaths(fn, k, from, func(b *ssa.BasicBlock) bool { return isReturnBlock(b) }, nil, 5000)
	r.paths += len(paths)
	if !okp {
		return false, "path cap exceeded", nil
	}
	var used *c17Col
	lost := ""
	for _, p := range paths {
		if p.Has(true, func(v ssa.Value, _ string) bool { return isNilCompareOf(v, isErr) }) {
			continue
		}
		found := false
		for i := range cols {
			c := &cols[i]
			if !p.Contains(c.instr.Block()) {
				continue
			}
			if after != nil && c.instr.Block() == from && dInstrIndex(c.instr) < dInstrIndex(after) {
				continue
			}
			found = true
			if used != nil && (used.cont != c.cont || used.kind != c.kind) {
				return false, "the error is collected into different containers on different paths", nil
			}
			used = c
		}
		if !found {
			lost = "on the path [" + shortFacts(p) + "] the error is neither sent to the helper's channel nor stored into the helper's slice (directly, or by a callee / closure that always does so)"
		}
	}
	return lost == "" && used != nil, lost, used
}

// c17Collected checks steps 1 and 2 for one API write inside a goroutine body: the error is
// collected on every path where it is non-nil, and the spawning helper returns the collection.
func c17Collected(r *Run, helper, body *ssa.Function, g *ssa.Go, e *Effect) bool {
	call, ok := e.Call.(*ssa.Call)
	pos := r.Prog.Pos(e.Call.Pos())
	hf := shortFunc(helper)
	construct := "goroutine " + e.String()
	if !ok {
		r.Undecided("C17.R3", construct, pos, hf, "API write is issued with go/defer inside the goroutine: its error is dropped")
		return false
	}
	var errv ssa.Value = call
	isErr := func(v ssa.Value) bool { return unwrap(v) == errv }
	mc, _ := g.Call.Value.(*ssa.MakeClosure)
	env := func(v ssa.Value) ssa.Value {
		switch y := v.(type) {
		case *ssa.FreeVar:
			if mc != nil {
				for i, fv := range body.FreeVars {
					if fv == y && i < len(mc.Bindings) {
						return mc.Bindings[i]
					}
				}
			}
		case *ssa.Parameter:
			if i := paramIndex(y); i >= 0 && !g.Call.IsInvoke() && i < len(g.Call.Args) && y.Parent() == body {
				return g.Call.Args[i]
			}
		}
		return nil
	}
	cols := c17FindCollectors(r, body, isErr, env, 0)
	okc, lost, used := c17AlwaysCollected(r, body, call.Block(), call, isErr, cols)
	r.Check("C17.R3", construct+" collected", pos, hf, "a non-nil error of an API write in a goroutine is handed to the spawner (channel send / slice variable of the helper) on every path", okc, lost)
	if !okc || used == nil {
		return false
	}
	// step 2: the helper returns the collection
	ok2, why := false, ""
	if used.kind == "chan" {
		ok2, why = c17ChanDrained(r, helper, func(v ssa.Value) bool { return c17ContRoot(v) == used.cont }, 0)
	} else {
		ok2, why = c17SliceReturned(helper, used.cont)
	}
	r.Check("C17.R3", construct+" returned", r.Prog.Pos(helper.Pos()), hf, "the helper returns every collected error ("+used.kind+" "+used.name+")", ok2, why)
	if used.kind == "chan" {
		ok3, why3 := c17ClosedAfterSenders(r, helper, body, g, env, used.cont)
		r.Check("C17.R3", construct+" channel closed after the senders", pos, hf,
			"the error channel is closed only after a WaitGroup.Wait that every sending goroutine signals (deferred Done) and that the spawner's Add counts (otherwise errors sent after the close are lost)", ok3, why3)
		ok2 = ok2 && ok3
	}
	return ok2
}

// c17ChanDrained: fn receives from the channel accepted by isChan in a loop that ends only when the
// channel is closed, and every return value derives from the received values — or fn returns the
// result of a repository function to which it hands the channel and which does so.
func c17ChanDrained(r *Run, fn *ssa.Function, isChan func(ssa.Value) bool, depth int) (bool, string) {
	helper := fn
	var recv *ssa.UnOp
	for _, b := range helper.Blocks {
		for _, ins := range b.Instrs {
			u, ok := ins.(*ssa.UnOp)
			if !ok || u.Op != token.ARROW {
				continue
			}
			if isChan(u.X) {
				recv = u
			}
		}
	}
	if recv == nil {
		// drained by a callee whose result is returned
		if depth < 3 {
			for _, ci := range callsIn(fn) {
				c, ok := ci.(*ssa.Call)
				if !ok {
					continue
				}
				callee := staticCallee(&c.Call)
				if callee == nil || !r.Prog.IsRepoFunc(callee) || len(callee.Blocks) == 0 {
					continue
				}
				for k, a := range c.Call.Args {
					if _, isCh := a.Type().Underlying().(*types.Chan); !isCh || !isChan(a) || k >= len(callee.Params) {
						continue
					}
					// every return of fn carries the callee's result
					all := true
					for _, rt := range dNormalReturns(fn) {
						found := false
						for _, res := range rt.Results {
							if c17IsErrType(res.Type()) && anyOrigin(res, func(v ssa.Value) bool {
								if v == ssa.Value(c) {
									return true
								}
								ex, isEx := v.(*ssa.Extract)
								return isEx && ex.Tuple == ssa.Value(c)
							}) {
								found = true
							}
						}
						if !found {
							all = false
						}
					}
					if !all {
						continue
					}
					pk := callee.Params[k]
					ok2, why := c17ChanDrained(r, callee, func(v ssa.Value) bool { return c17ContRoot(v) == ssa.Value(pk) }, depth+1)
					if ok2 {
						return true, shortFunc(callee) + ": " + why
					}
					return false, shortFunc(callee) + ": " + why
				}
			}
		}
		return false, "the helper never receives from the error channel"
	}
	if !recv.CommaOk {
		return false, "the helper receives a single value from the error channel instead of ranging over it until it is closed"
	}
	rb := recv.Block()
	if !dReaches(rb, rb) {
		return false, "the receive from the error channel is not in a loop"
	}
	iff, ok := rb.Instrs[len(rb.Instrs)-1].(*ssa.If)
	var okEx, valEx ssa.Value
	for _, rf := range refs(recv) {
		if ex, isEx := rf.(*ssa.Extract); isEx {
			if ex.Index == 1 {
				okEx = ex
			} else {
				valEx = ex
			}
		}
	}
	if !ok || okEx == nil || iff.Cond != okEx {
		return false, "the loop over the error channel does not end on channel close"
	}
	// the only exit of the loop is the receive block's !ok edge
	inLoop := func(b *ssa.BasicBlock) bool { return (b == rb || dReaches(rb, b)) && dReaches(b, rb) }
	for _, b := range helper.Blocks {
		if !inLoop(b) {
			continue
		}
		for i, s := range b.Succs {
			if inLoop(s) {
				continue
			}
			if b == rb && i == 1 {
				continue
			}
			return false, "the loop draining the error channel can be left before the channel is closed"
		}
	}
	if valEx == nil {
		return false, "received errors are discarded"
	}
	// every iteration that received a non-nil error appends it to what is returned
	isVal := func(v ssa.Value) bool { return unwrap(v) == valEx }
	var appends []ssa.Instruction
	for _, b := range helper.Blocks {
		if !inLoop(b) {
			continue
		}
		for _, ins := range b.Instrs {
			if c, ok := ins.(*ssa.Call); ok && dBuiltin(&c.Call) == "append" && len(c.Call.Args) > 1 && anyOrigin(c.Call.Args[1], isVal) {
				flows := false
				for _, rt := range dNormalReturns(helper) {
					for _, res := range rt.Results {
						if anyOrigin(res, func(v ssa.Value) bool { return v == ssa.Value(c) }) || unwrapPhiReaches(res, c) {
							flows = true
						}
					}
				}
				if flows {
					appends = append(appends, ins)
				}
			}
		}
	}
	kk := newKeyer(helper)
	body, okb := enumPaths(helper, kk, rb, func(b *ssa.BasicBlock) bool {
		if b == rb {
			return false
		}
		for _, sc := range b.Succs {
			if sc == rb {
				return true
			}
		}
		return false
	}, nil, 500)
	if !okb {
		return false, "the loop draining the error channel is too complex"
	}
	for _, bp := range body {
		if len(bp.Blocks) < 2 || bp.Blocks[1] != rb.Succs[0] {
			continue
		}
		last := bp.Blocks[len(bp.Blocks)-1]
		facts := factSet{}
		for k2, f := range bp.Facts {
			facts[k2] = f
		}
		for _, f := range kk.edgeFacts(last, rb) {
			facts[fkey(f)] = f
		}
		if facts.any(true, func(v ssa.Value, _ string) bool { return isNilCompareOf(v, isVal) }) {
			continue // a nil value was received: nothing to keep
		}
		kept := false
		for _, a := range appends {
			if bp.Contains(a.Block()) {
				kept = true
			}
		}
		if !kept {
			return false, "an iteration of the draining loop that received a non-nil error does not append it to the returned errors (path [" + shortFacts(bp) + "])"
		}
	}
	for _, rt := range dNormalReturns(helper) {
		found := false
		for _, res := range rt.Results {
			if c17IsErrType(res.Type()) && anyOrigin(res, func(v ssa.Value) bool { return v == valEx }) {
				found = true
			}
		}
		if !found {
			return false, "a return of the helper does not carry the errors received from the channel"
		}
	}
	return true, "range over the channel until close; received errors are appended to the returned slice"
}

// unwrapPhiReaches reports whether value v can be the result of call c through phis and appends.
func unwrapPhiReaches(v ssa.Value, c *ssa.Call) bool {
	seen := map[ssa.Value]bool{}
	var rec func(x ssa.Value) bool
	rec = func(x ssa.Value) bool {
		if x == nil || seen[x] {
			return false
		}
		seen[x] = true
		if x == ssa.Value(c) {
			return true
		}
		switch y := x.(type) {
		case *ssa.Phi:
			for _, e := range y.Edges {
				if rec(e) {
					return true
				}
			}
		case *ssa.Call:
			if dBuiltin(&y.Call) == "append" {
				return rec(y.Call.Args[0])
			}
		}
		return false
	}
	return rec(v)
}

// c17AddCounts: the WaitGroup.Add call accounts for the goroutine started by g — a positive constant
// executed once per execution of the go statement, or len(S) before a range loop over S that holds
// the go statement.
func c17AddCounts(add *ssa.Call, g *ssa.Go) bool {
	if len(add.Call.Args) < 2 || !dDominatesInstr(add, g) {
		return false
	}
	delta := add.Call.Args[1]
	multi := dReaches(g.Block(), g.Block())
	if c, ok := constInt(delta); ok {
		if c < 1 {
			return false
		}
		if !multi {
			return true
		}
		// every cycle through the go statement passes the Add
		if add.Block() == g.Block() {
			return true
		}
		seen := map[*ssa.BasicBlock]bool{add.Block(): true}
		work := append([]*ssa.BasicBlock{}, g.Block().Succs...)
		for len(work) > 0 {
			b := work[len(work)-1]
			work = work[:len(work)-1]
			if seen[b] {
				continue
			}
			seen[b] = true
			if b == g.Block() {
				return false
			}
			work = append(work, b.Succs...)
		}
		return true
	}
	// Add(len(S)) ahead of `for … range S { go … }`
	lc, ok := unwrap(delta).(*ssa.Call)
	if !ok || dBuiltin(&lc.Call) != "len" || !multi || dReaches(g.Block(), add.Block()) {
		return false
	}
	k := newKeyer(g.Parent())
	for h := g.Block(); h != nil; h = h.Idom() {
		if !dInLoop(h, g.Block()) || h == g.Block() {
			continue
		}
		iff, ok := h.Instrs[len(h.Instrs)-1].(*ssa.If)
		if !ok {
			continue
		}
		cmp, ok := iff.Cond.(*ssa.BinOp)
		if !ok || cmp.Op != token.LSS {
			continue
		}
		ln, ok := cmp.Y.(*ssa.Call)
		if ok && dBuiltin(&ln.Call) == "len" && k.key(ln.Call.Args[0]) == k.key(lc.Call.Args[0]) {
			return true
		}
	}
	return false
}

func c17SliceReturned(helper *ssa.Function, cell ssa.Value) (bool, string) {
	for _, rt := range dNormalReturns(helper) {
		found := false
		for _, res := range rt.Results {
			if !c17IsErrType(res.Type()) {
				continue
			}
			// an aggregate of the slice (NewAggregate / errors.Join) carries the same errors
			for depth := 0; depth < 3; depth++ {
				c, ok := unwrap(res).(*ssa.Call)
				if !ok || !c17IsAggregator(&c.Call) || len(c.Call.Args) == 0 {
					break
				}
				res = c.Call.Args[0]
			}
			for _, c := range dChains(res, false) {
				if c.Root == cell && c.Loads == 1 && len(c.Path) == 0 {
					found = true
				}
			}
			// or a slice built from the elements of the captured slice
			if anyOrigin(res, func(v ssa.Value) bool {
				for _, c := range dChains(v, false) {
					if c.Root == cell && c.Loads >= 1 {
						return true
					}
				}
				return false
			}) {
				found = true
			}
		}
		if !found {
			return false, "a return of the helper does not return the captured error slice"
		}
	}
	return true, "the captured slice is returned"
}

// c17BoolToStatus reads a function of one boolean parameter that returns constant condition
// statuses: which status for true, which for false (ok=false if it is not such a function).
func c17BoolToStatus(r *Run, fn *ssa.Function) (map[bool]string, bool) {
	if fn == nil || len(fn.Blocks) == 0 || len(fn.Params) != 1 || fn.Signature.Results().Len() != 1 {
		return nil, false
	}
	if b, ok := fn.Params[0].Type().Underlying().(*types.Basic); !ok || b.Kind() != types.Bool {
		return nil, false
	}
	paths, _, ok := funcPaths(fn, 100)
	r.paths += len(paths)
	if !ok {
		return nil, false
	}
	out := map[bool]string{}
	for _, p := range paths {
		s, isC := constString(p.Resolve(returnOf(p.Blocks[len(p.Blocks)-1]).Results[0]))
		if !isC {
			return nil, false
		}
		var val, known bool
		for _, f := range p.Facts {
			if f.V == ssa.Value(fn.Params[0]) {
				val, known = f.Pol, true
			}
		}
		if !known {
			return nil, false
		}
		if prev, seen := out[val]; seen && prev != s {
			return nil, false
		}
		out[val] = s
	}
	return out, len(out) == 2
}

// c17StatusFalseOnError: the condition status is f(cond) where cond tells whether the collected
// error is nil / the collected errors are empty, and f maps the "there is an error" side to False.
func c17StatusFalseOnError(r *Run, p *Path, status ssa.Value, fromSrc func(ssa.Value) bool) bool {
	c, ok := unwrap(status).(*ssa.Call)
	if !ok || len(c.Call.Args) != 1 {
		return false
	}
	table, ok := c17BoolToStatus(r, staticCallee(&c.Call))
	if !ok {
		return false
	}
	cond, neg := p.Resolve(c.Call.Args[0]), false
	for {
		if u, isU := cond.(*ssa.UnOp); isU && u.Op == token.NOT {
			cond, neg = u.X, !neg
			continue
		}
		break
	}
	bo, ok := cond.(*ssa.BinOp)
	if !ok {
		return false
	}
	// condValueWhenError: the value of cond when an error was collected
	var whenErr bool
	isZero := func(v ssa.Value) bool { z, ok := constInt(v); return ok && z == 0 }
	isLenOfSrc := func(v ssa.Value) bool {
		lc, ok := unwrap(v).(*ssa.Call)
		return ok && dBuiltin(&lc.Call) == "len" && fromSrc(lc.Call.Args[0])
	}
	switch {
	case (bo.Op == token.EQL || bo.Op == token.NEQ) && ((isNilConst(bo.Y) && fromSrc(bo.X)) || (isNilConst(bo.X) && fromSrc(bo.Y))):
		whenErr = bo.Op == token.NEQ // err != nil is true when there is an error
	case (bo.Op == token.EQL || bo.Op == token.NEQ) && ((isZero(bo.Y) && isLenOfSrc(bo.X)) || (isZero(bo.X) && isLenOfSrc(bo.Y))):
		whenErr = bo.Op == token.NEQ
	case bo.Op == token.GTR && isLenOfSrc(bo.X) && isZero(bo.Y), bo.Op == token.LSS && isZero(bo.X) && isLenOfSrc(bo.Y):
		whenErr = true
	default:
		return false
	}
	if neg {
		whenErr = !whenErr
	}
	return table[whenErr] == "False" && table[!whenErr] == "True"
}

func c17IsAggregator(c *ssa.CallCommon) bool {
	switch calleeName(c) {
	case "k8s.io/apimachinery/pkg/util/errors.NewAggregate", "errors.Join", "k8s.io/apimachinery/pkg/util/errors.Flatten":
		return true
	}
	return false
}

// c17OnPathReaches resolves v backwards along path p through phis, appends, variadic arrays,
// conversions and error-aggregating calls, and reports whether it reaches target.
func c17OnPathReaches(p *Path, v, target ssa.Value) bool {
	seen := map[ssa.Value]bool{}
	var rec func(v ssa.Value, d int) bool
	rec = func(v ssa.Value, d int) bool {
		if v == nil || d > 60 {
			return false
		}
		if v == target {
			return true
		}
		if seen[v] {
			return false
		}
		seen[v] = true
		switch x := v.(type) {
		case *ssa.Phi:
			nv := p.ResolveOnce(v)
			if nv == v {
				return false
			}
			return rec(nv, d+1)
		case *ssa.MakeInterface:
			return rec(x.X, d+1)
		case *ssa.ChangeInterface:
			return rec(x.X, d+1)
		case *ssa.ChangeType:
			return rec(x.X, d+1)
		case *ssa.Convert:
			return rec(x.X, d+1)
		case *ssa.Slice:
			return rec(x.X, d+1)
		case *ssa.Extract:
			return rec(x.Tuple, d+1)
		case *ssa.Alloc:
			for _, rf := range refs(x) {
				if ia, ok := rf.(*ssa.IndexAddr); ok {
					for _, r2 := range refs(ia) {
						if st, ok := r2.(*ssa.Store); ok && st.Addr == ssa.Value(ia) && rec(st.Val, d+1) {
							return true
						}
					}
				}
			}
			return false
		case *ssa.Call:
			if dBuiltin(&x.Call) == "append" {
				for _, a := range x.Call.Args {
					if rec(a, d+1) {
						return true
					}
				}
				return false
			}
			switch calleeName(&x.Call) {
			case "k8s.io/apimachinery/pkg/util/errors.NewAggregate", "errors.Join", "k8s.io/apimachinery/pkg/util/errors.Flatten":
				for _, a := range x.Call.Args {
					if rec(a, d+1) {
						return true
					}
				}
			}
			return false
		}
		return false
	}
	return rec(v, 0)
}

// c17ConditionWriter reports whether fn writes the ReconcileError condition with status True on
// every path where its error parameter #j is non-nil.
var c17CondWriterMemo = map[string]bool{}

func c17ConditionWriter(r *Run, fn *ssa.Function, j int) bool {
	if fn == nil || len(fn.Blocks) == 0 || j >= len(fn.Params) || !r.Prog.IsRepoFunc(fn) {
		return false
	}
	key := fmt.Sprintf("%s#%d", funcName(fn), j)
	if v, ok := c17CondWriterMemo[key]; ok {
		return v
	}
	c17CondWriterMemo[key] = false // recursion guard
	want, _ := r.Prog.constStr(pkgAPI, "ConditionTypeReconcileError")
	p := fn.Params[j]
	paths, _, ok := funcPaths(fn, 2000)
	r.paths += len(paths)
	res := ok && len(paths) > 0
	some := false
	for _, pa := range paths {
		if pa.Has(true, func(v ssa.Value, _ string) bool { return isNilCompareOf(v, isParam(p)) }) {
			continue
		}
		found := false
		for _, b := range pa.Blocks {
			for _, ins := range b.Instrs {
				c, isCall := ins.(*ssa.Call)
				if !isCall {
					continue
				}
				hasType, hasTrue := false, false
				for _, a := range c.Call.Args {
					if s, isC := constString(pa.Resolve(a)); isC {
						if s == want {
							hasType = true
						}
						if s == "True" {
							hasTrue = true
						}
					}
				}
				if hasType && hasTrue {
					found = true
				}
				// or the error (or an aggregate of it) is handed to a function that is itself such a writer
				if callee := staticCallee(&c.Call); callee != nil && callee != fn {
					for k, a := range c.Call.Args {
						if c17IsErrType(a.Type()) && c17OnPathReaches(pa, a, p) && c17ConditionWriter(r, callee, k) {
							found = true
						}
					}
				}
			}
		}
		if !found {
			res = false
		}
		some = true
	}
	res = res && some
	c17CondWriterMemo[key] = res
	return res
}

// c17CallerSinks checks step 3 in the function containing `call`: on every path from the call to a
// return the errors (src) reach a sink. It returns the result indexes through which the function
// hands the errors on to its own callers (empty when everything is sunk locally).
func c17CallerSinks(r *Run, call *ssa.Call, src ssa.Value, helper *ssa.Function, what string, isTop bool) []int {
	fn := call.Parent()
	sf := shortFunc(fn)
	pos := r.Prog.Pos(call.Pos())
	construct := "errors of " + shortFunc(helper)
	k := newKeyer(fn)
	paths, okp := enumPaths(fn, k, call.Block(), func(b *ssa.BasicBlock) bool { return isReturnBlock(b) }, nil, 5000)
	r.paths += len(paths)
	if !okp {
		r.Undecided("C17.R3", construct, pos, sf, "path cap exceeded")
		return nil
	}
	cleanupType, _ := r.Prog.constStr(pkgAPI, "ConditionTypePodsCleanupDone")
	// arguments of the helper call whose emptiness implies "no operation, hence no error"
	var emptyArgs []ssa.Value
	for i, a := range call.Call.Args {
		if _, isSlice := a.Type().Underlying().(*types.Slice); isSlice && c17LoopBoundedBy(helper, i) {
			emptyArgs = append(emptyArgs, a)
		}
	}
	derivesFromSrc := func(p *Path, v ssa.Value) bool { return c17OnPathReaches(p, v, src) }
	isLenOf := func(p *Path, v ssa.Value, pred func(ssa.Value) bool) bool {
		c, ok := unwrap(v).(*ssa.Call)
		return ok && dBuiltin(&c.Call) == "len" && pred(c.Call.Args[0])
	}
	impliesEmpty := func(p *Path) bool {
		for _, f := range p.Facts {
			bo, ok := f.V.(*ssa.BinOp)
			if !ok {
				continue
			}
			isSrcLen := func(v ssa.Value) bool { return isLenOf(p, v, func(x ssa.Value) bool { return derivesFromSrc(p, x) }) }
			isArgLen := func(v ssa.Value) bool {
				return isLenOf(p, v, func(x ssa.Value) bool {
					for _, a := range emptyArgs {
						if unwrap(x) == unwrap(a) {
							return true
						}
					}
					return false
				})
			}
			isLen := func(v ssa.Value) bool { return isSrcLen(v) || isArgLen(v) }
			zero := func(v ssa.Value) bool { z, ok := constInt(v); return ok && z == 0 }
			one := func(v ssa.Value) bool { z, ok := constInt(v); return ok && z == 1 }
			// the branch taken on this path
			taken := func(op token.Token, x, y ssa.Value, truth bool) bool {
				switch op {
				case token.EQL:
					return truth && ((isLen(x) && zero(y)) || (isLen(y) && zero(x)))
				case token.NEQ:
					return !truth && ((isLen(x) && zero(y)) || (isLen(y) && zero(x)))
				case token.GTR: // len > 0 false ; 1 > len true
					return (!truth && isLen(x) && zero(y)) || (truth && one(x) && isLen(y))
				case token.LSS: // 0 < len false ; len < 1 true
					return (!truth && zero(x) && isLen(y)) || (truth && isLen(x) && one(y))
				case token.GEQ: // len >= 1 false ; 0 >= len true
					return (!truth && isLen(x) && one(y)) || (truth && zero(x) && isLen(y))
				case token.LEQ: // len <= 0 true ; 1 <= len false
					return (truth && isLen(x) && zero(y)) || (!truth && one(x) && isLen(y))
				}
				return false
			}
			// recover the truth value of the original comparison from the normalised fact
			nf := p.k.normCond(bo, true)
			if len(nf) != 1 {
				continue
			}
			truth := nf[0].Pol == f.Pol
			if nf[0].Key != f.Key {
				continue
			}
			if taken(bo.Op, bo.X, bo.Y, truth) {
				return true
			}
			// aggregate error == nil
			if (bo.Op == token.EQL || bo.Op == token.NEQ) && (isNilConst(bo.X) || isNilConst(bo.Y)) {
				other := bo.X
				if isNilConst(bo.X) {
					other = bo.Y
				}
				if derivesFromSrc(p, other) && truth == (bo.Op == token.EQL) {
					return true
				}
			}
		}
		return false
	}
	retIdx := map[int]bool{}
	var lost []string
	nPaths := 0
	for _, p := range paths {
		if impliesEmpty(p) {
			continue
		}
		nPaths++
		sunk := false
		viaReturn := -1
		for bi, b := range p.Blocks {
			for _, ins := range b.Instrs {
				if bi == 0 && dInstrIndex(ins) <= dInstrIndex(call) {
					continue
				}
				switch x := ins.(type) {
				case *ssa.Call:
					callee := staticCallee(&x.Call)
					for j, a := range x.Call.Args {
						if c17IsErrType(a.Type()) && callee != nil && c17ConditionWriter(r, callee, j) && derivesFromSrc(p, a) {
							sunk = true
							c17NoteStatusSink(x, "ReconcileError")
						}
					}
					// PodsCleanupDone written False
					hasType := false
					var status ssa.Value
					for _, a := range x.Call.Args {
						if s, isC := constString(p.Resolve(a)); isC && s == cleanupType {
							hasType = true
						}
						if n, ok := a.Type().(*types.Named); ok && n.Obj().Name() == "ConditionStatus" {
							status = a
						}
					}
					if hasType && status != nil {
						if s, isC := constString(p.Resolve(status)); isC && s == "False" {
							sunk = true
							c17NoteStatusSink(x, "PodsCleanupDone")
						} else if c17StatusFalseOnError(r, p, p.Resolve(status), func(v ssa.Value) bool { return derivesFromSrc(p, v) }) {
							sunk = true
							c17NoteStatusSink(x, "PodsCleanupDone")
						}
					}
				case *ssa.Return:
					for i, res := range x.Results {
						if c17IsErrType(res.Type()) && derivesFromSrc(p, res) {
							viaReturn = i
						}
					}
				}
			}
		}
		if sunk {
			continue
		}
		if viaReturn >= 0 {
			retIdx[viaReturn] = true
			continue
		}
		lost = append(lost, "["+shortFacts(p)+"]")
	}
	detail := fmt.Sprintf("%d path(s) from the call to a return; ", nPaths)
	if len(lost) > 0 {
		sort.Strings(lost)
		detail += "lost on path " + lost[0]
		if len(lost) > 1 {
			detail += fmt.Sprintf(" and %d more", len(lost)-1)
		}
	} else {
		detail += "each reaches the ReconcileError writer, a PodsCleanupDone=False write or a returned error"
	}
	r.Check("C17.R3", construct, pos, sf, what+" reach the ReconcileError condition, the PodsCleanupDone condition or a returned error on every path", len(lost) == 0, detail)
	var out []int
	if !isTop {
		for i := range retIdx {
			out = append(out, i)
		}
		sort.Ints(out)
	}
	return out
}

// c17LoopBoundedBy reports whether every go statement of helper sits in a range loop over its
// slice parameter #i (so an empty argument means no operation is started).
func c17LoopBoundedBy(helper *ssa.Function, i int) bool {
	if i >= len(helper.Params) {
		return false
	}
	p := helper.Params[i]
	isParamSlice := func(v ssa.Value) bool {
		for _, c := range dChains(v, true) {
			if c.Root == ssa.Value(p) && len(c.Path) == 0 {
				continue
			}
			// captured parameter: a cell that is stored exactly once, with the parameter
			if a, ok := c.Root.(*ssa.Alloc); ok && c.Loads == 1 && len(c.Path) == 0 {
				n, okStore := 0, false
				for _, rf := range refs(a) {
					if st, isSt := rf.(*ssa.Store); isSt && st.Addr == ssa.Value(a) {
						n++
						okStore = st.Val == ssa.Value(p)
					}
				}
				if n == 1 && okStore {
					continue
				}
			}
			return false
		}
		return true
	}
	ff := computeFacts(helper)
	n := 0
	for _, ci := range callsIn(helper) {
		g, ok := ci.(*ssa.Go)
		if !ok {
			continue
		}
		body := staticCallee(&g.Call)
		if body == nil {
			return false
		}
		hasEffect := false
		for _, c := range callsIn(body) {
			if e := clientEffect(body, c); e != nil && isWriteVerb(e.Verb) {
				hasEffect = true
			}
		}
		if !hasEffect {
			continue
		}
		n++
		bounded := ff.Holds(g.Block(), true, func(v ssa.Value, _ string) bool {
			bo, ok := v.(*ssa.BinOp)
			if !ok || bo.Op != token.LSS {
				return false
			}
			c, ok := bo.Y.(*ssa.Call)
			return ok && dBuiltin(&c.Call) == "len" && isParamSlice(c.Call.Args[0])
		})
		if !bounded {
			return false
		}
	}
	return n > 0
}

// ---------------------------------------------------------------------------------------------
// R3, last link: the status object a condition sink writes to is the one that is persisted

type c17StatusSink struct {
	call *ssa.Call
	kind string
}

var c17StatusSinks []c17StatusSink

func c17NoteStatusSink(c *ssa.Call, kind string) {
	for _, s := range c17StatusSinks {
		if s.call == c {
			return
		}
	}
	c17StatusSinks = append(c17StatusSinks, c17StatusSink{c, kind})
}

func c17IsStatusPtr(t types.Type) bool {
	return isPtrToNamed(t, pkgAPI, "ExtendedDaemonSetReplicaSetStatus")
}

// c17Persisters finds the functions that persist a status handed to them: a Status().Update of an
// object whose Status field is assigned from *param.
func c17Persisters(r *Run, reach map[*ssa.Function]bool) map[*ssa.Function]int {
	out := map[*ssa.Function]int{}
	for _, e := range effectsOf(reach) {
		if e.Verb != "Update" || !e.Status {
			continue
		}
		fn := e.Fn
		var objRoots []ssa.Value
		for _, c := range dChains(e.Obj, true) {
			objRoots = append(objRoots, c.Root)
		}
		for _, b := range fn.Blocks {
			for _, in := range b.Instrs {
				st, ok := in.(*ssa.Store)
				if !ok {
					continue
				}
				fa, ok := st.Addr.(*ssa.FieldAddr)
				if !ok || fieldName(fa) != "Status" {
					continue
				}
				isObj := false
				for _, c := range dChains(fa.X, true) {
					for _, o := range objRoots {
						if c.Root == o {
							isObj = true
						}
					}
				}
				if !isObj {
					continue
				}
				ld, ok := st.Val.(*ssa.UnOp)
				if !ok || ld.Op != token.MUL {
					continue
				}
				if p, ok := ld.X.(*ssa.Parameter); ok && c17IsStatusPtr(p.Type()) {
					out[fn] = paramIndex(p)
				}
			}
		}
		// or the status is copied into the object's Status field by a function that assigns *dst = *src
		// (the generated DeepCopyInto)
		for _, ci := range callsIn(fn) {
			c := ci.Common()
			callee := staticCallee(c)
			if callee == nil || len(callee.Blocks) == 0 {
				continue
			}
			for si, src := range c.Args {
				p, ok := unwrap(src).(*ssa.Parameter)
				if !ok || p.Parent() != fn || !c17IsStatusPtr(p.Type()) || si >= len(callee.Params) {
					continue
				}
				for di, dst := range c.Args {
					fa, ok := dst.(*ssa.FieldAddr)
					if !ok || di == si || fieldName(fa) != "Status" || di >= len(callee.Params) {
						continue
					}
					isObj := false
					for _, ch := range dChains(fa.X, true) {
						for _, o := range objRoots {
							if ch.Root == o {
								isObj = true
							}
						}
					}
					if isObj && c17CopiesInto(callee, si, di) && dDominatesInstr(ci, e.Call) {
						out[fn] = paramIndex(p)
					}
				}
			}
		}
	}
	return out
}

// c17CopiesInto: fn assigns *param#dst = *param#src as a whole.
func c17CopiesInto(fn *ssa.Function, src, dst int) bool {
	ps, pd := fn.Params[src], fn.Params[dst]
	for _, b := range fn.Blocks {
		for _, in := range b.Instrs {
			st, ok := in.(*ssa.Store)
			if !ok || st.Addr != ssa.Value(pd) {
				continue
			}
			if ld, ok := st.Val.(*ssa.UnOp); ok && ld.Op == token.MUL && ld.X == ssa.Value(ps) {
				return true
			}
		}
	}
	return false
}

type c17Persist struct {
	r          *Run
	ers        *ssa.Function
	reach      map[*ssa.Function]bool
	persisters map[*ssa.Function]int
}

// sameObject: two values denote the same status object — the same SSA value, or loads of the same
// field path of the same root with no store to that path in the function.
func c17SameObject(fn *ssa.Function, a, b ssa.Value) bool {
	if unwrap(a) == unwrap(b) {
		return true
	}
	ra, pa := accessPath(a)
	rb, pb := accessPath(b)
	if ra != rb || len(pa) == 0 || !c16PathEq(pa, pb) {
		return false
	}
	_, la := unwrap(a).(*ssa.UnOp)
	_, lb := unwrap(b).(*ssa.UnOp)
	if !la || !lb {
		return false
	}
	// every store to the path precedes both loads
	for _, blk := range fn.Blocks {
		for _, in := range blk.Instrs {
			if st, ok := in.(*ssa.Store); ok {
				r2, p2 := accessPath(st.Addr)
				if r2 == ra && len(p2) > 0 && c16HasPrefix(pa, p2) {
					if !dDominatesInstr(st, unwrap(a).(ssa.Instruction)) || !dDominatesInstr(st, unwrap(b).(ssa.Instruction)) {
						return false
					}
				}
			}
		}
	}
	return true
}

// statusPersisted: the status object v, used at site in fn, is the one handed to Status().Update.
func (cp *c17Persist) statusPersisted(fn *ssa.Function, site ssa.Instruction, v ssa.Value, depth int) (bool, string) {
	if depth > 6 {
		return false, "provenance deeper than 6 calls"
	}
	sf := shortFunc(fn)
	// (a) handed to a persister later on every path to a return
	var persistCalls []*ssa.Call
	for _, ci := range callsIn(fn) {
		c, ok := ci.(*ssa.Call)
		if !ok {
			continue
		}
		if q, isP := cp.persisters[staticCallee(&c.Call)]; isP && q < len(c.Call.Args) && c17SameObject(fn, c.Call.Args[q], v) {
			persistCalls = append(persistCalls, c)
		}
	}
	if len(persistCalls) > 0 {
		for _, rt := range dNormalReturns(fn) {
			if !(site.Block() == rt.Block() || dReaches(site.Block(), rt.Block())) {
				continue
			}
			covered := false
			for _, c := range persistCalls {
				if dDominatesInstr(c, rt) && (dDominatesInstr(site, c) || site == ssa.Instruction(c)) {
					covered = true
				}
			}
			if !covered {
				return false, "the status is handed to the status update in " + sf + ", but not on every path after the condition is written"
			}
		}
		return true, "handed to the status update in " + sf
	}
	root, path := accessPath(v)
	// (b) the caller's status: follow the parameter to every call site
	if p, isP := root.(*ssa.Parameter); isP && len(path) == 0 && p.Parent() == fn {
		sites := dCallSitesIn(cp.r.Prog, fn, cp.reach)
		if len(sites) == 0 {
			return false, "no caller of " + sf
		}
		why := ""
		for _, cs := range sites {
			ok, w := cp.statusPersisted(cs.Parent(), cs, cs.Common().Args[paramIndex(p)], depth+1)
			if !ok {
				return false, w + " ← " + sf
			}
			why = w
		}
		return true, why + " ← " + sf
	}
	// (c) the NewStatus of the Result this function returns (or the very value stored into it)
	resultOf := func(x ssa.Value) ssa.Value {
		r2, p2 := accessPath(x)
		if len(p2) == 1 && p2[0] == "NewStatus" && isPtrToNamed(r2.Type(), pkgStrategy, "Result") {
			return r2
		}
		return nil
	}
	res := resultOf(v)
	if res == nil {
		// the same value that is stored into some Result.NewStatus
		for _, b := range fn.Blocks {
			for _, in := range b.Instrs {
				if st, ok := in.(*ssa.Store); ok && unwrap(st.Val) == unwrap(v) {
					if r2 := resultOf(st.Addr); r2 != nil {
						res = r2
					}
				}
			}
		}
	}
	if res == nil {
		return false, fmt.Sprintf("the condition is written on %s in %s, which is neither the NewStatus of the returned Result nor handed to the status update", pathString(v), sf)
	}
	// later reassignment of res.NewStatus would detach the written object
	for _, b := range fn.Blocks {
		for _, in := range b.Instrs {
			if st, ok := in.(*ssa.Store); ok && resultOf(st.Addr) == res {
				if (site.Block() == st.Block() && dInstrIndex(site) < dInstrIndex(st)) || (site.Block() != st.Block() && dReaches(site.Block(), st.Block())) {
					if unwrap(st.Val) != unwrap(v) {
						return false, "Result.NewStatus is reassigned in " + sf + " after the condition was written"
					}
				}
			}
		}
	}
	return cp.resultPersisted(fn, res, depth+1)
}

// resultPersisted: the *Result value res of fn has its NewStatus persisted — fn returns it and every
// caller persists the NewStatus of what it gets, or fn is the Reconcile and does so itself.
func (cp *c17Persist) resultPersisted(fn *ssa.Function, res ssa.Value, depth int) (bool, string) {
	sf := shortFunc(fn)
	if depth > 6 {
		return false, "provenance deeper than 6 calls"
	}
	if fn == cp.ers {
		// the NewStatus of res is what the persister receives
		for _, ci := range callsIn(fn) {
			c, ok := ci.(*ssa.Call)
			if !ok {
				continue
			}
			q, isP := cp.persisters[staticCallee(&c.Call)]
			if !isP || q >= len(c.Call.Args) {
				continue
			}
			r2, p2 := accessPath(c.Call.Args[q])
			if r2 != res || len(p2) != 1 || p2[0] != "NewStatus" {
				continue
			}
			all := true
			resIns, _ := res.(ssa.Instruction)
			for _, rt := range dNormalReturns(fn) {
				if resIns != nil && dDominatesInstr(resIns, rt) && !dDominatesInstr(c, rt) {
					all = false
				}
			}
			if all {
				return true, "its NewStatus is handed to the status update in " + sf
			}
		}
		return false, "the NewStatus of the strategy result is not what " + sf + " hands to the status update"
	}
	// the Result was handed in by the caller: it is the caller's to persist
	if p, isP := unwrap(res).(*ssa.Parameter); isP && p.Parent() == fn {
		sites := dCallSitesIn(cp.r.Prog, fn, cp.reach)
		if len(sites) == 0 {
			return false, "no caller of " + sf
		}
		why := ""
		for _, cs := range sites {
			ok2, w := cp.resultPersisted(cs.Parent(), unwrap(cs.Common().Args[paramIndex(p)]), depth+1)
			if !ok2 {
				return false, w + " ← " + sf
			}
			why = w
		}
		return true, why + " ← " + sf
	}
	returned := false
	for _, rt := range dNormalReturns(fn) {
		if len(rt.Results) == 0 {
			continue
		}
		if anyOrigin(rt.Results[0], func(x ssa.Value) bool { return unwrap(x) == unwrap(res) }) || unwrap(rt.Results[0]) == unwrap(res) {
			returned = true
		}
	}
	if !returned {
		return false, "the Result whose NewStatus carries the condition is not the one " + sf + " returns"
	}
	sites := dCallSitesIn(cp.r.Prog, fn, cp.reach)
	if len(sites) == 0 {
		return false, "no caller of " + sf
	}
	why := ""
	for _, cs := range sites {
		call, ok := cs.(*ssa.Call)
		if !ok {
			return false, sf + " is started with go/defer"
		}
		var got ssa.Value = call
		if fn.Signature.Results().Len() > 1 {
			got = nil
			for _, rf := range refs(call) {
				if ex, ok := rf.(*ssa.Extract); ok && ex.Index == 0 {
					got = ex
				}
			}
			if got == nil {
				return false, "the Result of " + sf + " is dropped in " + shortFunc(call.Parent())
			}
		}
		ok2, w := cp.resultPersisted(call.Parent(), got, depth+1)
		if !ok2 {
			return false, w + " ← " + sf
		}
		why = w
	}
	return true, why + " ← " + sf
}

func c17StatusPersisted(r *Run, ers *ssa.Function, reach map[*ssa.Function]bool) {
	cp := &c17Persist{r: r, ers: ers, reach: reach, persisters: c17Persisters(r, reach)}
	// a function that hands its status parameter to a persister on every path to a return persists it too
	for changed := true; changed; {
		changed = false
		for _, fn := range sortedFuncs(reach) {
			if _, done := cp.persisters[fn]; done || !r.Prog.IsRepoFunc(fn) {
				continue
			}
			for qi, q := range fn.Params {
				if !c17IsStatusPtr(q.Type()) {
					continue
				}
				for _, ci := range callsIn(fn) {
					c, ok := ci.(*ssa.Call)
					if !ok {
						continue
					}
					pq, isP := cp.persisters[staticCallee(&c.Call)]
					if !isP || pq >= len(c.Call.Args) || unwrap(c.Call.Args[pq]) != ssa.Value(q) {
						continue
					}
					all := true
					for _, rt := range dNormalReturns(fn) {
						// the call may itself be the returned expression
						if !dDominatesInstr(c, rt) {
							all = false
						}
					}
					if all {
						cp.persisters[fn] = qi
						changed = true
					}
				}
			}
		}
	}
	if len(cp.persisters) == 0 {
		r.Check("C17.R3", "status persister", r.Prog.Pos(ers.Pos()), shortFunc(ers), "a function writing the computed status with Status().Update is reachable from the Reconcile", false, "none found")
		return
	}
	sort.Slice(c17StatusSinks, func(i, j int) bool { return c17StatusSinks[i].call.Pos() < c17StatusSinks[j].call.Pos() })
	for _, s := range c17StatusSinks {
		fn := s.call.Parent()
		var obj ssa.Value
		for _, a := range s.call.Call.Args {
			if c17IsStatusPtr(a.Type()) {
				obj = a
			}
		}
		pos := r.Prog.Pos(s.call.Pos())
		construct := s.kind + " written on the persisted status"
		if obj == nil {
			r.Undecided("C17.R3", construct, pos, shortFunc(fn), "the condition writer receives no *ExtendedDaemonSetReplicaSetStatus")
			continue
		}
		need := "the status object on which the " + s.kind + " condition is written is the one that reaches Status().Update (the planner's returned Result.NewStatus, or the status the Reconcile updates)"
		// a helper writing on its caller's status: one obligation per caller
		if p, isP := unwrap(obj).(*ssa.Parameter); isP && p.Parent() == fn {
			sites := dCallSitesIn(r.Prog, fn, reach)
			if len(sites) == 0 {
				r.Check("C17.R3", construct, pos, shortFunc(fn), need, false, "no caller of "+shortFunc(fn))
			}
			for _, cs := range sites {
				ok, why := cp.statusPersisted(cs.Parent(), cs, cs.Common().Args[paramIndex(p)], 1)
				r.Check("C17.R3", construct+" (via "+shortFunc(fn)+")", r.Prog.Pos(cs.Pos()), shortFunc(cs.Parent()), need, ok, why)
			}
			continue
		}
		ok, why := cp.statusPersisted(fn, s.call, obj, 0)
		r.Check("C17.R3", construct, pos, shortFunc(fn), need, ok, why)
	}
}

// c17LiftToHelper resolves a value of fn — the helper itself, a closure made in it, a repository
// function it calls, or a closure made there — to the helper-level root it stands for (nil if unknown).
func c17LiftToHelper(r *Run, helper, fn *ssa.Function, v ssa.Value, depth int) ssa.Value {
	root := c17ContRoot(v)
	if root == nil || depth > 4 {
		return nil
	}
	if fn == helper {
		return root
	}
	switch x := root.(type) {
	case *ssa.FreeVar:
		var out ssa.Value
		for _, mc := range r.Prog.closureSites(fn) {
			for i, fv := range fn.FreeVars {
				if fv == x && i < len(mc.Bindings) {
					h := c17LiftToHelper(r, helper, mc.Parent(), mc.Bindings[i], depth+1)
					if h == nil || (out != nil && out != h) {
						return nil
					}
					out = h
				}
			}
		}
		return out
	case *ssa.Parameter:
		var out ssa.Value
		for _, cs := range r.Prog.callSitesAll(fn) {
			caller := cs.Parent()
			top := caller
			for top.Parent() != nil {
				top = top.Parent()
			}
			if top != helper {
				continue // other users of the function are judged at their own helper
			}
			idx := paramIndex(x)
			if idx >= len(cs.Common().Args) {
				return nil
			}
			h := c17LiftToHelper(r, helper, caller, cs.Common().Args[idx], depth+1)
			if h == nil || (out != nil && out != h) {
				return nil
			}
			out = h
		}
		return out
	}
	return nil
}

// c17ClosedAfterSenders: every close of the error channel happens after Wait on the WaitGroup that
// the sending goroutine signals with a deferred Done and that the spawner's Add accounts for.
func c17ClosedAfterSenders(r *Run, helper, body *ssa.Function, g *ssa.Go, env c17Env, cont ssa.Value) (bool, string) {
	// functions working for the helper: itself, its closures, repository callees and their closures
	scope := map[*ssa.Function]bool{helper: true}
	for changed := true; changed; {
		changed = false
		for _, fn := range sortedFuncs(scope) {
			for _, b := range fn.Blocks {
				for _, in := range b.Instrs {
					var f2 *ssa.Function
					switch x := in.(type) {
					case *ssa.MakeClosure:
						f2, _ = x.Fn.(*ssa.Function)
					case ssa.CallInstruction:
						if c := staticCallee(x.Common()); c != nil && r.Prog.IsRepoFunc(c) && fn == helper {
							f2 = c
						}
					}
					if f2 != nil && !scope[f2] && len(f2.Blocks) > 0 {
						scope[f2] = true
						changed = true
					}
				}
			}
		}
	}
	// the WaitGroup the sender signals
	var senderWG ssa.Value
	for _, in := range body.Blocks[0].Instrs {
		d, ok := in.(*ssa.Defer)
		if !ok {
			continue
		}
		if name, isSync := dIsSyncCall(&d.Call); isSync && name == "Done" && len(d.Call.Args) > 0 {
			for _, c := range dChains(d.Call.Args[0], true) {
				if h := env(c.Root); h != nil {
					senderWG = c17ContRoot(h)
				}
			}
		}
	}
	nClose := 0
	for _, fn := range sortedFuncs(scope) {
		for _, b := range fn.Blocks {
			for _, in := range b.Instrs {
				c, ok := in.(*ssa.Call)
				if !ok || dBuiltin(&c.Call) != "close" || len(c.Call.Args) != 1 {
					continue
				}
				if c17LiftToHelper(r, helper, fn, c.Call.Args[0], 0) != cont {
					continue
				}
				nClose++
				if senderWG == nil {
					return false, "the channel is closed at " + r.Prog.Pos(c.Pos()) + " but the sending goroutine does not signal a WaitGroup with a deferred Done"
				}
				waited := false
				for _, b2 := range fn.Blocks {
					for _, in2 := range b2.Instrs {
						w, ok := in2.(*ssa.Call)
						if !ok {
							continue
						}
						if name, isSync := dIsSyncCall(&w.Call); isSync && name == "Wait" && len(w.Call.Args) > 0 && dDominatesInstr(w, c) &&
							c17LiftToHelper(r, helper, fn, w.Call.Args[0], 0) == senderWG {
							waited = true
						}
					}
				}
				if !waited {
					return false, "the channel is closed at " + r.Prog.Pos(c.Pos()) + " without first waiting on the senders' WaitGroup"
				}
			}
		}
	}
	if nClose == 0 {
		return true, "the channel is never closed by the helper (termination of the drain is out of scope)"
	}
	counted := false
	for _, ci := range callsIn(helper) {
		a, ok := ci.(*ssa.Call)
		if !ok {
			continue
		}
		if name, isSync := dIsSyncCall(&a.Call); isSync && name == "Add" && len(a.Call.Args) > 0 && c17ContRoot(a.Call.Args[0]) == senderWG && c17AddCounts(a, g) {
			counted = true
		}
	}
	if !counted {
		return false, "no WaitGroup.Add with a positive count accounts for the goroutine before it is started: Wait can return, and the channel be closed, while it still sends"
	}
	return true, "closed after Wait on the WaitGroup the senders signal; Add counts every goroutine"
}
